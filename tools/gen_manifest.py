#!/usr/bin/env python3
"""Regenerate /verif/MANIFEST.json from tools/props.py (single source of truth)."""
import json, os, sys
HERE = os.path.dirname(os.path.dirname(os.path.abspath(__file__)))
sys.path.insert(0, os.path.join(HERE, "tools"))
import props
ALL = [f"C{i:02d}" for i in range(1, 21)]
checks, na = [], []
for pid in ALL:
    c = props.PROPS.get(pid)
    if c is None or not c.get("claimed", True):
        na.append({"property_id": pid, "reason": props.NOT_CLAIMED.get(pid, "monitor not built yet (work in progress; see DESIGN.md section 4 for the planned oracle)")})
        continue
    checks.append({
        "property_id": pid,
        "quick_cmd": f"./check {pid} --tier quick",
        "thorough_cmd": f"./check {pid} --tier thorough",
        "evidence_file": f"evidence/{pid}.json",
        "replay_cmd_template": f"./check {pid} --replay {{path}}",
        "engine": c.get("engine", "av-harness"),
        "level_claimed": {"category": c["level"], "text": c["level_text"], "design_ref": f"DESIGN.md section 4, {pid}"},
        "level_note": c["level_note"],
        "technique": c["technique"],
    })
m = {
    "version": 1,
    "setup_cmd": "tools/setup.sh",
    "hooks": props.HOOKS,
    "engines": props.ENGINES,
    "checks": checks,
    "not_applicable": na,
    "notes": props.NOTES,
}
json.dump(m, open(os.path.join(HERE, "MANIFEST.json"), "w"), indent=1)
print(f"MANIFEST.json: {len(checks)} checks, {len(na)} not claimed")
