#!/usr/bin/env python3
"""Validate MANIFEST.json and evidence/*.json against the schemas (uses the tooling venv's jsonschema)."""
import json, glob, sys, os
import jsonschema
HERE = os.path.dirname(os.path.dirname(os.path.abspath(__file__)))
ok = True
jsonschema.validate(json.load(open(f'{HERE}/MANIFEST.json')), json.load(open('/root/.vp/MANIFEST.schema.json')))
es = json.load(open('/root/.vp/EVIDENCE.schema.json'))
for f in sorted(glob.glob(f'{HERE}/evidence/*.json')):
    try:
        jsonschema.validate(json.load(open(f)), es)
    except Exception as e:
        ok = False
        print('INVALID', f, str(e)[:300])
print('valid' if ok else 'INVALID')
sys.exit(0 if ok else 1)
