#!/bin/bash
# One-time setup after a fresh restore (offline): build both harness variants from files on disk.
set -u
HERE="$(cd "$(dirname "$0")/.." && pwd)"
cd "$HERE" || exit 1
export CARGO_NET_OFFLINE=true
tools/build.sh rel chk || exit 1
if [ -x tools/setup_sanit.sh ]; then tools/setup_sanit.sh || echo "sanitizer setup incomplete (thorough-tier sanitizer engines will report inconclusive)"; fi
echo "setup ok"
