#!/usr/bin/env python3
"""List the source lines of every debug_assert!/debug_assert_eq!/debug_assert_ne! in altrios-core
(current working tree) as `<path suffix>:<line>`; written to bin/debug_assert_sites.txt by build.sh.
A panic raised at one of these sites in the debug-assertions build is the developers' own monitor,
not one of the 20 properties: it is recorded as a diagnostic (DESIGN section 1.1)."""
import os, re, sys
root = "/repo/rust/altrios-core/src"
out = []
for d, _, fs in os.walk(root):
    for f in fs:
        if f.endswith(".rs"):
            p = os.path.join(d, f)
            for i, line in enumerate(open(p, errors="replace"), 1):
                if re.search(r"\bdebug_assert(_eq|_ne)?!", line):
                    out.append(f"{os.path.relpath(p, '/repo/rust/altrios-core')}:{i}")
print("\n".join(out))
