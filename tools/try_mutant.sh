#!/bin/bash
# Apply a seeded change to /repo, run the quick checks of the given properties, undo it straight afterwards.
#   tools/try_mutant.sh <patch.diff> <Cxx> [Cyy ...]      (env TIER=quick|thorough)
set -u
HERE="$(cd "$(dirname "$0")/.." && pwd)"
P="$(realpath "$1")"; shift
TIER="${TIER:-quick}"
if [ -n "$(git -C /repo status --porcelain --untracked-files=no)" ]; then echo "/repo is not clean" >&2; exit 2; fi
git -C /repo apply "$P" || { echo "patch does not apply" >&2; exit 2; }
trap 'git -C /repo checkout -- .' EXIT
cd "$HERE"
for prop in "$@"; do
  out=$(./check "$prop" --tier "$TIER" 2>&1); rc=$?
  nv=$(echo "$out" | grep -c '^VIOLATION')
  echo "MUTANT $(basename "$(dirname "$P")")/$(basename "$P") property=$prop tier=$TIER exit=$rc violations=$nv"
  echo "$out" | grep -A1 '^VIOLATION' | head -6
  echo "$out" | grep -E 'INCONCLUSIVE|BUILD-FAILED' | head -3
done
