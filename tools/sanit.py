#!/usr/bin/env python3
"""Sanitizer / interpreter engines (DESIGN.md section 6). Used by ./check as extra engines of the
thorough tier and runnable on their own:

    tools/sanit.py <engine> [seed]        engine: asan-dispatch | asan-batch | miri-dispatch | miri-batch |
                                                  tsan-batch | memcheck-dispatch

Every engine rebuilds the `avs` workload binary (harness/src/sanit_main.rs) against /repo's working tree
with the nightly toolchain (sanit/ws, vendored patches from tools/vendor_nightly_deps.sh), runs it under the
tool and returns

    {"summary": {...}, "coverage": {...}, "violations": [...], "inconclusive": [...]}

Verdicts are three-valued: a tool report or a failed workload oracle is a violation; a build failure, a
missing tool or a timeout is `unavailable` / inconclusive and never a violation.
"""
import json
import os
import re
import subprocess
import sys
import time

HERE = os.path.dirname(os.path.dirname(os.path.abspath(__file__)))
WS = os.path.join(HERE, "sanit", "ws")
FIX = os.path.join(HERE, "sanit", "fixtures")
TARGET = "x86_64-unknown-linux-gnu"
ENV = dict(os.environ, CARGO_NET_OFFLINE="true", CARGO_TERM_COLOR="never")


def log(*a):
    print(*a, flush=True)


def sh(cmd, env=None, timeout=None, cwd=None):
    t0 = time.time()
    try:
        p = subprocess.run(cmd, env=env or ENV, cwd=cwd or WS, stdout=subprocess.PIPE, stderr=subprocess.PIPE, timeout=timeout)
        return p.returncode, p.stdout.decode(errors="replace"), p.stderr.decode(errors="replace"), time.time() - t0
    except subprocess.TimeoutExpired as e:
        return None, (e.stdout or b"").decode(errors="replace"), (e.stderr or b"").decode(errors="replace"), time.time() - t0


def ensure_vendor():
    if not os.path.exists(os.path.join(WS, ".cargo", "config.toml")) or not os.path.isdir(os.path.join(HERE, "sanit", "vendor")):
        rc, so, se, _ = sh(["bash", os.path.join(HERE, "tools", "vendor_nightly_deps.sh")], cwd=HERE)
        if rc != 0:
            return "vendoring failed: " + (se or so)[-300:]
    return None


def ensure_fixtures(n, seed, max_nodes=None):
    """dispatch fixtures are generated natively (bin/avs-rel, built by tools/build.sh from /repo's working tree)"""
    d = os.path.join(FIX, f"s{seed}-n{n}" + (f"-m{max_nodes}" if max_nodes else ""))
    avs = os.path.join(HERE, "bin", "avs-rel")
    if not os.path.exists(avs):
        return None, "bin/avs-rel missing (tools/build.sh rel)"
    subprocess.run(["rm", "-rf", d])
    rc, so, se, _ = sh([avs, "gen-fixtures", d, str(n), str(seed)] + ([str(max_nodes)] if max_nodes else []), cwd=HERE, timeout=1200)
    if rc != 0:
        return None, "fixture generation failed: " + (se or so)[-300:]
    return d, None


def unavailable(engine, why, t0):
    return {"summary": {"engine": engine, "status": "unavailable", "reason": why[-400:], "wall_s": round(time.time() - t0, 1)},
            "coverage": {}, "violations": [], "inconclusive": []}


def first_repo_frame(text):
    m = re.search(r"(/repo/rust/[^\s:]+:\d+)", text)
    if m:
        return m.group(1)
    # valgrind prints `function (file.rs:line)` without the directory
    m = re.search(r"(altrios_core::[^\n(]*?)\s*\(([\w\-]+\.rs:\d+)\)", text)
    return f"{m.group(2)} in {m.group(1).strip()}" if m else ""


def violation(prop, engine, kind, text, workload):
    frame = first_repo_frame(text)
    where = re.sub(r".*/src/", "", frame).split(" in ")[0] if frame else "no_repo_frame"
    return {"property": prop, "clause": "sanitizer_report", "signature": f"{prop}:{engine}:{kind}:{where}",
            "message": f"{engine} reported {kind} while running `{workload}`" + (f" (first frame in the repository: {frame})" if frame else ""),
            "case": None, "variant": engine, "detail": {"report_tail": text[-3000:], "workload": workload}}


WORKLOAD_RE = re.compile(r"^(DISPATCH|BATCH)-WORKLOAD (.*)$", re.M)


def parse_workloads(out):
    res = []
    for m in WORKLOAD_RE.finditer(out):
        d = {"kind": m.group(1)}
        for kv in re.finditer(r"(\w+)=(\{.*\}|\S+)", m.group(2)):
            v = kv.group(2)
            try:
                v = json.loads(v)
            except Exception:
                pass
            d[kv.group(1)] = v
        res.append(d)
    return res


# ---------------------------------------------------------------------------------------------- builds
def build_native_sanitizer(san, extra_flags=(), build_std=False):
    """cargo +nightly build with -Zsanitizer=<san>; returns (binary, error)"""
    err = ensure_vendor()
    if err:
        return None, err
    tdir = os.path.join(HERE, "sanit", f"target-{san}")
    env = dict(ENV, RUSTFLAGS=" ".join([f"-Zsanitizer={san}", "-Cforce-frame-pointers=yes", "-Cdebuginfo=1"] + list(extra_flags)))
    cmd = ["cargo", "+nightly", "build", "--release", "--target", TARGET, "--target-dir", tdir, "--bin", "avs"]
    if build_std:
        cmd += ["-Zbuild-std"]
    rc, so, se, dt = sh(cmd, env=env, timeout=3600)
    if rc != 0:
        return None, f"build failed ({dt:.0f}s): " + se[-600:]
    return os.path.join(tdir, TARGET, "release", "avs"), None


def miri_cmd(flags, args):
    env = dict(ENV, MIRIFLAGS=" ".join(flags))
    return ["cargo", "+nightly", "miri", "run", "--target-dir", os.path.join(HERE, "sanit", "target-miri"), "--bin", "avs", "--"] + args, env


def build_miri():
    err = ensure_vendor()
    if err:
        return err
    # `cargo miri run` builds; a tiny run makes the build a separate, timed step
    cmd, env = miri_cmd(["-Zmiri-disable-isolation", "-Zmiri-no-extra-rounding-error"], ["noop"])
    rc, so, se, dt = sh(cmd, env=env, timeout=3600)
    if "Finished" not in se and "Running" not in se:
        return f"miri build failed ({dt:.0f}s): " + se[-600:]
    return None


def run_parallel(jobs, width):
    """jobs: list of (label, cmd, env, timeout); returns list of (label, rc, out, err, dt)"""
    res, running = [], []
    jobs = list(jobs)
    while jobs or running:
        while jobs and len(running) < width:
            label, cmd, env, to = jobs.pop(0)
            p = subprocess.Popen(cmd, env=env, cwd=WS, stdout=subprocess.PIPE, stderr=subprocess.PIPE)
            running.append((label, p, time.time(), to))
        for item in list(running):
            label, p, t0, to = item
            if p.poll() is not None:
                so, se = p.communicate()
                res.append((label, p.returncode, so.decode(errors="replace"), se.decode(errors="replace"), time.time() - t0))
                running.remove(item)
            elif time.time() - t0 > to:
                p.kill()
                so, se = p.communicate()
                res.append((label, None, so.decode(errors="replace"), se.decode(errors="replace"), time.time() - t0))
                running.remove(item)
        time.sleep(0.2)
    return res


def summarize(engine, prop, results, kind_of_report, t0, extra=None):
    """results: (label, rc, out, err, dt). rc None = timeout (inconclusive)."""
    violations, inconclusive, workloads = [], [], []
    reports = 0
    for label, rc, out, err, dt in results:
        wl = parse_workloads(out)
        workloads += wl
        if rc is None:
            inconclusive.append(f"{engine}: `{label}` timed out after {dt:.0f}s")
            continue
        if rc != 0:
            kind = kind_of_report(err + out)
            if kind is None:
                # workload oracle (assert in avs) or a panic in the code under test
                m = re.search(r"panicked at ([^\n]*)\n([^\n]*)", err)
                if not m:
                    # the tool itself failed (unsupported operation, unrecognised instruction, killed): no verdict
                    inconclusive.append(f"{engine}: `{label}` exited with {rc} without a tool report or a panic: " + (err.strip().splitlines()[-1][:200] if err.strip() else ""))
                    continue
                kind = "workload_oracle_or_panic:" + re.sub(r"[0-9]+\.[0-9]+", "N", m.group(2))[:80]
            reports += 1
            violations.append(violation(prop, engine, kind, err + out, label))
    cov = {}
    runs_ok = sum(1 for r in results if r[1] == 0)
    hits = {}
    for w in workloads:
        for k, v in (w.get("unsafe_block_executions") or {}).items():
            hits[k] = hits.get(k, 0) + v
    cov[f"{engine}.processes_run"] = len(results)
    cov[f"{engine}.processes_clean"] = runs_ok
    cov[f"{engine}.tool_reports"] = reports
    if any(w["kind"] == "DISPATCH" for w in workloads):
        cov[f"{engine}.dispatch_runs"] = sum(int(w.get("ok", 0)) + int(w.get("err", 0)) for w in workloads if w["kind"] == "DISPATCH")
        cov[f"{engine}.est_time_nodes_dispatched"] = sum(int(w.get("est_nodes", 0)) for w in workloads if w["kind"] == "DISPATCH")
        cov[f"{engine}.unsafe_block_executions"] = hits
    if any(w["kind"] == "BATCH" for w in workloads):
        cov[f"{engine}.batch_walks"] = sum(1 for w in workloads if w["kind"] == "BATCH")
        cov[f"{engine}.batch_elements_compared_with_serial"] = sum(int(w.get("compared", 0)) for w in workloads if w["kind"] == "BATCH")
        cov[f"{engine}.batch_pool_sizes_seen"] = sorted({int(w.get("workers", 0)) for w in workloads if w["kind"] == "BATCH"})
        cov[f"{engine}.batches_with_a_failing_element"] = sum(1 for w in workloads if w["kind"] == "BATCH" and str(w.get("failing")) in ("true", "True"))
    if extra:
        cov.update(extra)
    status = "reports" if violations else ("inconclusive" if inconclusive and not runs_ok else "clean")
    return {"summary": {"engine": engine, "status": status, "processes": len(results), "clean": runs_ok, "wall_s": round(time.time() - t0, 1)},
            "coverage": cov, "violations": violations, "inconclusive": inconclusive}


# ---------------------------------------------------------------------------------------------- report classifiers
def asan_kind(text):
    m = re.search(r"ERROR: (?:Address|Leak)Sanitizer:? ([a-zA-Z\-]+)", text)
    if m:
        return m.group(1)
    if "LeakSanitizer: detected memory leaks" in text:
        return "memory-leak"
    return None


def tsan_kind(text):
    m = re.search(r"WARNING: ThreadSanitizer: ([a-zA-Z \-]+)", text)
    return m.group(1).strip().replace(" ", "-") if m else None


def miri_kind(text):
    m = re.search(r"error: Undefined Behavior: ([^\n]{0,80})", text)
    if m:
        return "undefined-behavior:" + re.sub(r"(alloc\d+|<\d+>|0x[0-9a-f]+)", "_", m.group(1))[:60]
    m = re.search(r"error: (memory leaked|the main thread terminated without waiting|deadlock)[^\n]*", text)
    if m:
        return m.group(1).replace(" ", "-")
    if "Data race detected" in text:
        return "data-race"
    return None


def memcheck_kind(text):
    k = re.search(r"==\d+== (Invalid (?:read|write) of size \d+|Conditional jump or move depends on uninitialised|Use of uninitialised value|Invalid free|Mismatched free|Source and destination overlap|Process terminating with default action of signal \d+ \(SIG[A-Z]+\))", text)
    if k:
        return k.group(1).replace(" ", "-")[:60]
    m = re.search(r"ERROR SUMMARY: (\d+) errors", text)
    if m and int(m.group(1)) > 0:
        return "errors"
    return None


# ---------------------------------------------------------------------------------------------- engines
def asan_dispatch(here, prop, tier, seed):
    t0 = time.time()
    exe, err = build_native_sanitizer("address")
    if err:
        return unavailable("asan", err, t0)
    d, err = ensure_fixtures(320, seed)
    if err:
        return unavailable("asan", err, t0)
    env = dict(ENV, ASAN_OPTIONS="halt_on_error=1:abort_on_error=0:detect_leaks=1:detect_stack_use_after_return=1")
    # shard the fixtures over processes: a report ends a process, the others keep going
    files = sorted(os.listdir(d))
    shards = 16
    jobs = []
    for i in range(shards):
        sd = os.path.join(d, f"shard{i}")
        os.makedirs(sd, exist_ok=True)
        for f in files[i::shards]:
            os.rename(os.path.join(d, f), os.path.join(sd, f))
        jobs.append((f"avs dispatch {os.path.relpath(sd, HERE)}", [exe, "dispatch", sd], env, 1800))
    res = run_parallel(jobs, 16)
    return summarize("asan", prop, res, asan_kind, t0)


def batch_jobs(exe_prefix, env, seed, n, timeout):
    jobs = []
    for k in range(n):
        s = seed * 1000 + k
        elements = [2, 3, 5, 9, 17, 33][k % 6]
        steps = [10, 40, 120][k % 3]
        threads = [1, 2, 3, 4, 7, 16][(k // 2) % 6]
        e = dict(env, RAYON_NUM_THREADS=str(threads))
        jobs.append((f"RAYON_NUM_THREADS={threads} avs batch {s} {elements} {steps}", exe_prefix + ["batch", str(s), str(elements), str(steps)], e, timeout))
    return jobs


def asan_batch(here, prop, tier, seed):
    t0 = time.time()
    exe, err = build_native_sanitizer("address")
    if err:
        return unavailable("asan", err, t0)
    env = dict(ENV, ASAN_OPTIONS="halt_on_error=1:abort_on_error=0:detect_leaks=1")
    res = run_parallel(batch_jobs([exe], env, seed, 96, 900), 16)
    return summarize("asan", prop, res, asan_kind, t0)


def tsan_batch(here, prop, tier, seed):
    t0 = time.time()
    exe, err = build_native_sanitizer("thread", build_std=True)
    if err:
        return unavailable("tsan", err, t0)
    env = dict(ENV, TSAN_OPTIONS="halt_on_error=1:second_deadlock_stack=1")
    res = run_parallel(batch_jobs([exe], env, seed, 96, 900), 8)
    return summarize("tsan", prop, res, tsan_kind, t0)


MIRI_BASE = ["-Zmiri-disable-isolation", "-Zmiri-no-extra-rounding-error"]


def miri_dispatch(here, prop, tier, seed):
    t0 = time.time()
    err = build_miri()
    if err:
        return unavailable("miri", err, t0)
    d, err = ensure_fixtures(12, seed, 260)
    if err:
        return unavailable("miri", err, t0)
    files = sorted(os.listdir(d))
    jobs = []
    for i, f in enumerate(files):
        sd = os.path.join(d, f"one{i}")
        os.makedirs(sd, exist_ok=True)
        os.rename(os.path.join(d, f), os.path.join(sd, f))
        cmd, env = miri_cmd(MIRI_BASE + [f"-Zmiri-seed={seed * 100 + i}"], ["dispatch", sd])
        jobs.append((f"miri: avs dispatch {os.path.relpath(sd, HERE)}", cmd, env, 2400))
    res = run_parallel(jobs, 12)
    return summarize("miri", prop, res, miri_kind, t0)


def miri_batch(here, prop, tier, seed):
    t0 = time.time()
    err = build_miri()
    if err:
        return unavailable("miri", err, t0)
    jobs = []
    # Tree Borrows: crossbeam-epoch 0.9.18 (a dependency of rayon) is rejected by Stacked Borrows in its own
    # `container_of`-style pointer arithmetic; -Zmiri-ignore-leaks: rayon's global pool threads outlive main
    for k in range(12):
        s = seed * 1000 + k
        elements = [2, 3, 5][k % 3]
        threads = [2, 3, 4][(k // 3) % 3]
        cmd, env = miri_cmd(MIRI_BASE + ["-Zmiri-tree-borrows", "-Zmiri-ignore-leaks", f"-Zmiri-seed={s}", f"-Zmiri-num-cpus={threads}", "-Zmiri-preemption-rate=0.05",
                                         f"-Zmiri-env-set=RAYON_NUM_THREADS={threads}"], ["batch", str(s), str(elements), "4"])
        jobs.append((f"miri(tree borrows, seed {s}, {threads} workers): avs batch {s} {elements} 4", cmd, env, 2400))
    res = run_parallel(jobs, 12)
    return summarize("miri", prop, res, miri_kind, t0)


def memcheck_dispatch(here, prop, tier, seed):
    t0 = time.time()
    exe = os.path.join(HERE, "bin", "avs-rel")
    if not os.path.exists(exe):
        return unavailable("memcheck", "bin/avs-rel missing", t0)
    if subprocess.run(["which", "valgrind"], stdout=subprocess.DEVNULL).returncode != 0:
        return unavailable("memcheck", "valgrind not installed", t0)
    d, err = ensure_fixtures(320, seed)
    if err:
        return unavailable("memcheck", err, t0)
    files = sorted(os.listdir(d))
    shards = 16
    jobs = []
    for i in range(shards):
        sd = os.path.join(d, f"shard{i}")
        os.makedirs(sd, exist_ok=True)
        for f in files[i::shards]:
            os.rename(os.path.join(d, f), os.path.join(sd, f))
        cmd = ["valgrind", "--tool=memcheck", "--error-exitcode=99", "--leak-check=no", "--track-origins=no", "-q", exe, "dispatch", sd]
        jobs.append((f"valgrind memcheck: avs-rel dispatch {os.path.relpath(sd, HERE)}", cmd, ENV, 2400))
    res = run_parallel(jobs, 16)
    return summarize("memcheck", prop, res, memcheck_kind, t0)


def regress_dispatch(here, prop, tier, seed):
    """Regression corpus (regress/dispatch/*.bin): instances that exposed a dispatch defect on a tree without the
    repair, run natively in both build variants. A failing fixture is a violation keyed by its file name."""
    t0 = time.time()
    d = os.path.join(HERE, "regress", "dispatch")
    n = len([f for f in os.listdir(d) if f.endswith(".bin")]) if os.path.isdir(d) else 0
    if n == 0:
        return unavailable("regress", "no fixtures in regress/dispatch", t0)
    violations, cov = [], {}
    for variant in ("rel", "chk"):
        exe = os.path.join(HERE, "bin", f"avs-{variant}")
        if not os.path.exists(exe):
            continue
        rc, so, se, dt = sh([exe, "regress", d], cwd=HERE, timeout=1800)
        if rc == 2 and "usage:" in se:
            # a binary that predates the subcommand (stale build): decides nothing
            cov[f"regress.{variant}.unavailable"] = "binary does not know the regress subcommand"
            continue
        m = re.search(r"REGRESS-WORKLOAD fixtures=(\d+) passed=(\d+) crate_debug_assert_trips=(\d+) failed=(\d+)", so)
        if m:
            cov[f"regress.{variant}.fixtures"] = int(m.group(1))
            cov[f"regress.{variant}.passed"] = int(m.group(2))
            cov[f"regress.{variant}.crate_debug_assert_trips"] = int(m.group(3))
        for line in so.splitlines():
            if line.startswith("REGRESS-FAILED "):
                name, _, why = line[len("REGRESS-FAILED "):].partition(": ")
                violations.append({"property": prop, "clause": "regression_corpus", "signature": f"{prop}:regression_corpus:{name}",
                                   "message": f"avs-{variant} regress: fixture {name} fails again: {why}", "case": None, "variant": f"regress-{variant}",
                                   "detail": {"fixture": os.path.join("regress", "dispatch", name), "why": why, "replay": f"bin/avs-{variant} regress regress/dispatch"}})
        if rc not in (0, 1) or (rc == 1 and not any(v["variant"] == f"regress-{variant}" for v in violations)):
            # the process died (abort) or was killed: which fixture is unknown, the corpus as a whole is reported
            violations.append({"property": prop, "clause": "regression_corpus", "signature": f"{prop}:regression_corpus:process_died",
                               "message": f"avs-{variant} regress died with {rc}: " + (se.strip().splitlines()[-1][:200] if se.strip() else ""), "case": None,
                               "variant": f"regress-{variant}", "detail": {"stderr_tail": se[-1500:]}})
    status = "reports" if violations else "clean"
    return {"summary": {"engine": "regress", "status": status, "fixtures": n, "wall_s": round(time.time() - t0, 1)}, "coverage": cov, "violations": violations, "inconclusive": []}


ENGINES = {
    "regress-dispatch": regress_dispatch,
    "asan-dispatch": asan_dispatch, "asan-batch": asan_batch, "tsan-batch": tsan_batch,
    "miri-dispatch": miri_dispatch, "miri-batch": miri_batch, "memcheck-dispatch": memcheck_dispatch,
}

if __name__ == "__main__":
    if len(sys.argv) < 2 or sys.argv[1] not in ENGINES:
        log(__doc__)
        sys.exit(2)
    seed = int(sys.argv[2]) if len(sys.argv) > 2 else int(os.environ.get("VERIF_SEED", "1") or "1")
    prop = "C18" if "batch" in sys.argv[1] else "C05"
    r = ENGINES[sys.argv[1]](HERE, prop, "thorough", seed)
    log(json.dumps({k: r[k] for k in ("summary", "coverage", "inconclusive")}, indent=1))
    for v in r["violations"]:
        log("REPORT", v["signature"], v["message"])
    sys.exit(1 if r["violations"] else 0)
