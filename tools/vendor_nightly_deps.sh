#!/bin/bash
# The nightly toolchain cannot compile two of the repository's pinned dependencies as they are
# (ethnum 1.5.0: size-changing transmute; polars-*/arrow2: build.rs switches on a `nightly` cfg
# that uses core internals which no longer exist). Copy them from the local cargo registry into
# sanit/vendor/, neuter the nightly detection, fix the transmute, and write a cargo config with
# [patch.crates-io] entries. Tooling only: none of the patched lines is on a path the workloads run.
set -eu
HERE="$(cd "$(dirname "$0")/.." && pwd)"
REG=$(ls -d ~/.cargo/registry/src/*/ | head -1)
V="$HERE/sanit/vendor"
rm -rf "$V"; mkdir -p "$V"
mkdir -p "$HERE/sanit/ws/.cargo"
CFG="$HERE/sanit/ws/.cargo/config.toml"
printf '[net]\noffline = true\n\n[patch.crates-io]\n' > "$CFG"
for d in "$REG"/ethnum-1.5.0 "$REG"/arrow2-0.17.4 "$REG"/polars-*-0.32.1 "$REG"/polars-0.32.1; do
  [ -d "$d" ] || continue
  n=$(basename "$d"); name=${n%-*}
  cp -r "$d" "$V/$n"
  chmod -R u+w "$V/$n"
  rm -f "$V/$n/.cargo-checksum.json" "$V/$n/.cargo_vcs_info.json"
  if [ -f "$V/$n/build.rs" ]; then printf 'fn main() {}\n' > "$V/$n/build.rs"; fi
  for lib in "$V/$n/src/lib.rs"; do
    if [ -f "$lib" ]; then
      { echo '#![allow(unknown_lints, invalid_reference_casting, dangerous_implicit_autorefs, warnings)]'; cat "$lib"; } > "$lib.tmp" && mv "$lib.tmp" "$lib"
    fi
  done
  echo "$name = { path = \"$V/$n\" }" >> "$CFG"
done
# ethnum: TryFromIntError is no longer zero-sized
sed -i 's/unsafe { mem::transmute(()) }/unsafe { mem::transmute([0u8; mem::size_of::<TryFromIntError>()]) }/' "$V/ethnum-1.5.0/src/error.rs"
# lock file: start from the repository's pinned lock (same versions as the native build)
cp "$HERE/harness/Cargo.lock" "$HERE/sanit/ws/Cargo.lock"
echo "vendored $(ls "$V" | wc -l) crates into $V"
