#!/usr/bin/env python3
"""Regenerate the table of seeded changes in DESIGN.md (between the seeded-table markers) from seeded/*/meta.json."""
import glob, json, os, re
HERE = os.path.dirname(os.path.dirname(os.path.abspath(__file__)))
rows = ['| id | property | caught by | needs | first run |', '|---|---|---|---|---|']
for d in sorted(glob.glob(os.path.join(HERE, 'seeded', '*', 'meta.json'))):
    m = json.load(open(d))
    note = m.get('note', '')
    if 'missed at first' in note:
        first = 'strengthened: ' + note.split('missed at first:')[1].strip().split('; see DES')[0][:260]
    elif note.startswith(('at first', 'missed')) or 'monitor now' in note or 'until this change' in note:
        first = 'strengthened: ' + note.split('; see DES')[0][:260]
    else:
        first = 'caught'
    rows.append(f"| {m['id']} | {m['breaks_property']} | {', '.join(m['detected_by_checks']) or 'NOT DETECTED'} | {m['needs_to_manifest'][:170].replace('|', '/')} | {first.replace('|', '/')} |")
p = os.path.join(HERE, 'DESIGN.md')
s = open(p).read()
b, e = '<!-- seeded-table-begin -->', '<!-- seeded-table-end -->'
s = s[:s.index(b) + len(b)] + '\n' + '\n'.join(rows) + '\n' + s[s.index(e):]
open(p, 'w').write(s)
print(len(rows) - 2, 'seeded changes listed')
