"""Per-property driver configuration for ./check (sizes live in the Rust spec table;
floors, engines, levels and build variants live here)."""
import re


def abort_signature(prop, stderr):
    """Signature of a process abort: property + normalised last panic/abort line."""
    lines = [l for l in stderr.strip().splitlines() if l.strip()]
    last = lines[-1] if lines else "died"
    m = re.search(r"non-unwinding panic at ([^ ]+): (.*)", stderr)
    if m:
        what = "unsafe_precondition_violated" if "unsafe precondition" in m.group(2) else re.sub(r"[0-9]+\.[0-9]+(e-?[0-9]+)?", "N", m.group(2))[:120]
        return f"{prop}:abort:{what}"
    m = re.search(r"panicked at ([^:]+:\d+)", stderr)
    loc = m.group(1) if m else ""
    last = re.sub(r"[0-9]+\.[0-9]+(e-?[0-9]+)?", "N", last)[:120]
    return f"{prop}:abort:{loc}:{last}"


HOOKS = {
    "guard": "cargo feature `verif` on altrios-core (off by default)",
    "enable": "the harness crate /verif/harness depends on /repo/rust/altrios-core by path with features=[\"verif\"]; tools/build.sh runs cargo build --offline against /repo's working tree",
    "baseline_off_cmd": "cd /repo/rust && cargo test --workspace --no-fail-fast --offline",
    "source_commits": ["55df07d", "6a2de98", "b16fe2d"],
    "add_only": True,
}
ENGINES = [
    {"name": "sanitizer-engines", "path": "tools/sanit.py", "serves_properties": ["C05", "C18"],
     "kind_free_text": "rebuilds the avs workloads (harness/src/sanit_main.rs) with the nightly toolchain and runs them under AddressSanitizer, ThreadSanitizer (-Zbuild-std), Miri and valgrind memcheck; tool reports become violations with the report as replay, tool failures are recorded as unavailable"},
    {"name": "av-harness", "path": "harness/", "serves_properties": [f"C{i:02d}" for i in range(1, 21)],
     "kind_free_text": "Rust harness linking the real altrios-core: seeded generators, online adversarial drivers, reference models and per-step invariant monitors; worker subprocesses sharded over 16 cores by ./check"},
]
NOTES = ("Runtime monitoring only: every verdict is 'held on the executions observed'. exit 0 held / exit 1 VIOLATION / exit 2 inconclusive. "
         "VERIF_SEED selects the seed, VERIF_TIER overrides the tier. Known findings: known_findings.json. Seeded mutants: seeded/. See DESIGN.md.")
NOT_CLAIMED = {}
PT_NOTE = ("Trusted: the harness's own arithmetic and reference formulas (harness/src/mon/powertrain.rs), uom's SI base-unit storage, rustc. "
           "Assumed: generator domain of DESIGN.md section 3 (component maps, ratings, SOC windows, dt bound for batteries); hybrid/dummy units and unfinished policies excluded.")

PROPS = {
    "C01": {"level": "exploration",
            "technique": "runtime monitor: shadow energy ledger + per-step balance invariants on real Locomotive/Consist steps under an online adversarial demand driver and on walk() histories; aux-curtailment reference while braking; consist steps with engines commanded off",
            "level_text": "Every accepted step of hundreds of thousands of generated unit/consist runs is checked against all hand-off and ledger identities and every prefix against an independent running sum; assurance is 'held on every execution observed', which is what a deterministic numerical simulator with an unbounded input space admits for this technique.",
            "level_note": PT_NOTE,
            "floors": {"quick": {"distinct_nontrivial": 50, "steps.accepted": 20000, "consist_steps.accepted": 10000, "obs.energy_prefix": 100000},
                       "thorough": {"distinct_nontrivial": 2000, "steps.accepted": 1000000}}},
    "C08": {"level": "exploration",
            "technique": "runtime monitor: pointwise second-law / monotonicity / engine-off invariants on component state after every accepted step (adversarial driver + PowerTrace.engine_on patterns through LocomotiveSimulation::walk); consist-level cumulative counters monotone across mid-run fleet edits",
            "level_text": "Pointwise invariants evaluated after every accepted step across generated efficiency maps (values up to exactly 1.0), both traction directions, engine on/off patterns; held on all observed executions.",
            "level_note": PT_NOTE,
            "floors": {"quick": {"distinct_nontrivial": 50, "obs.regen_step": 1000, "obs.engine_off_step": 100},
                       "thorough": {"distinct_nontrivial": 2000, "obs.regen_step": 50000, "obs.engine_off_step": 5000}}},
    "C09": {"level": "exploration",
            "technique": "runtime monitor: limits published by set_cur_pwr_max_out are recorded and compared with the state of every accepted step; online adversary sits at/around each published limit; rejections counted per rejecting check",
            "level_text": "Accepted steps are compared with ratings, published transient limits, ramp rate and SOC window while an online adversary probes x(1+d) around every limit just published; held on all observed executions, with evidence showing that each rejecting check actually fired.",
            "level_note": PT_NOTE + " The wheel-level clause (traction <= published unit limit) is decided only for units whose generator/drivetrain maps are constant (exact inverse chain); for other maps it is recorded, the component-level clauses decide.",
            "floors": {"quick": {"distinct_nontrivial": 50, "steps.rejected": 1000, "obs.accepted_within_1e-3_of_unit_limit": 500,
                                 "rejected_by.fc_transient": 50, "rejected_by.res_transient_disch": 50, "obs.soc_window": 5000},
                       "thorough": {"distinct_nontrivial": 2000, "steps.rejected": 50000}}},
    "C10": {"level": "exploration",
            "technique": "runtime monitor: per-unit assignment invariants (sum, limits, sign, regen, battery-first residual) on loco_vec state after every accepted Consist::solve_energy_consumption, limits captured from the preceding set_cur_pwr_max_out",
            "level_text": "Every accepted consist step over generated consists (1..8 units, any mix/order, both shipped policies, demands from full dynamic braking to full traction incl. the battery-first switch point) is checked; held on all observed executions.",
            "level_note": PT_NOTE,
            "floors": {"quick": {"distinct_nontrivial": 30, "consist_steps.accepted": 20000, "obs.battery_first": 2000},
                       "thorough": {"distinct_nontrivial": 1500, "consist_steps.accepted": 1000000}}},
}

PATH_NOTE = ("Trusted: the harness's reference models (harness/src/mon/path.rs: own speed_params gate, own cover computation, atan2 heading change, cumulative walk). "
             "Assumed: generator family of DESIGN.md section 3, each network accepted by the crate's validation; positive speeds; |grade| <= 2.5 %.")
PROPS.update({
    "C02": {"level": "exploration",
            "technique": "runtime monitor with reference model: enforced step function from PathTpc::speed_points() vs reference min(train max, covering posted restrictions) built from the network, compared exactly at all breakpoints+midpoints, across extension schedules; train parameters also derived by the crate from make-ups with absent car types; networks also passed through a legacy-layout file first",
            "level_text": "For every generated route/train/extension schedule the pointwise claim enforced(x) <= posted(x) is decided exactly (both functions are piecewise constant; all breakpoints and midpoints are evaluated); held on all observed routes.",
            "level_note": PATH_NOTE,
            "floors": {"quick": {"distinct_nontrivial": 500, "obs.points_compared": 200000, "obs.routes": 3000},
                       "thorough": {"distinct_nontrivial": 50000, "obs.routes": 300000}}},
    "C13": {"level": "exploration",
            "technique": "runtime monitor with reference model: equality of the enforced profile with the reference tightest-restriction function at all breakpoints+midpoints, plus canonical-form invariants on speed_points(); same make-up derived trains and legacy-file pass-through as C02",
            "level_text": "Same executions and reference as C02 with the stricter oracle enforced(x) == tightest(x) and canonical form; held on all observed routes.",
            "level_note": PATH_NOTE,
            "floors": {"quick": {"distinct_nontrivial": 500, "obs.points_compared": 200000, "obs.canonical_form": 5000},
                       "thorough": {"distinct_nontrivial": 50000, "obs.routes": 300000}}},
    "C06": {"level": "exploration",
            "technique": "runtime monitor with reference model: PathTpc accessors vs an independent walk over the route's own elevation/heading/catenary points; bitwise PartialEq across all extension schedules; spliced non-contiguous routes must return Err; the crate's hinted lookup swept over all breakpoints/midpoints vs stateless evaluation; PathTpc::clear must keep geometry, counts and reported released counts",
            "level_text": "Geometry of every generated path is compared with the reference at all breakpoints and midpoints (piecewise-linear => exact up to rounding), every composition of extend calls (exhaustive for short routes) is compared bitwise, and non-contiguous routes are driven through extend; held on all observed routes.",
            "level_note": PATH_NOTE,
            "floors": {"quick": {"distinct_nontrivial": 300, "obs.elevation_points": 200000, "obs.schedule_equality": 5000, "obs.noncontiguous_rejected_with_err": 1000},
                       "thorough": {"distinct_nontrivial": 20000, "obs.routes": 200000}}},
})

PROPS["C16"] = {"level": "fault_enumeration", "exhaustive": True,
    "technique": "fault enumeration under a runtime monitor: every listed validation rule broken in isolation at every link of each generated valid network, through every load path (validate, from_json, from_yaml, from_file); oracle = error value for faults, Ok for valid networks, equality for the legacy layout; text-level faults for references wider than the index type; panics observed via catch_unwind + panic hook",
    "level_text": "For each generated network the set of single-fault mutations (rule x link x load path) is enumerated completely; the verdict per fault does not depend on an independent validator (the injected fault is one the statement lists). Network shapes themselves are sampled, so the claim is exhaustive per network, exploratory across networks.",
    "level_note": "Trusted: the fault injector (harness/src/mon/netval.rs) really produces the fault it names and nothing else; serde_json/serde_yaml. Assumed: generator family of DESIGN.md section 3.",
    "floors": {"quick": {"distinct_nontrivial": 100, "obs.faults_injected": 20000, "obs.faults_rejected_with_error_value": 50000, "obs.legacy_layout_loads": 20, "obs.fault.coincident_switch_points": 20},
               "thorough": {"distinct_nontrivial": 4000, "obs.faults_injected": 1000000}}}

TRAIN_NOTE = ("Trusted: harness reference evaluations (harness/src/mon/train.rs: stateless binary-search evaluation of the path's cumulative grade/curve functions, coefficient re-derivation from rail vehicles, reference posted-limit profile from mon/path.rs). "
              "Assumed: generator family (DESIGN.md section 3): 2..8 gaps, links 30 m-6 km, |grade| <= 1.8 %, trains that fit on the route, consists sized for weight and grade; a run is accepted when builder and first extend_path return Ok.")
PROPS.update({
    "C03": {"level": "exploration", "owns_aborts": True,
            "technique": "runtime monitor over SpeedLimitTrainSim histories (every saved step) with an independent posted-limit reference, panic capture (catch_unwind + hook, worker exit status), and a bounded-progress pre-flight (step budget) for 'the run ends'",
            "level_text": "Every saved step of thousands of generated speed-limited runs under three extension schedules is checked (non-negative speed, speed <= posted limit at the front position, speed <= limit in force, target <= limit), the final stop window is checked on Ok, any panic is a violation and non-termination within 60 000 steps is reported; held on what was observed except for the listed known finding.",
            "level_note": TRAIN_NOTE + " 'The run ends' is restated as bounded progress (60 000 steps, >= 3x the longest legitimate run in the family).",
            "floors": {"quick": {"distinct_nontrivial": 40, "obs.slts_accepted": 150, "obs.rows": 100000, "obs.final_stop_checked": 100},
                       "thorough": {"distinct_nontrivial": 2000, "obs.slts_accepted": 6000}}},
    "C07": {"level": "exploration",
            "technique": "runtime monitor with reference model: every saved row of set-speed and speed-limited runs vs force definitions evaluated statelessly (no cached indices) at the position/speed of the previous row; coefficients read from the serialized resistance model and re-derived from the rail vehicles",
            "level_text": "Each force term, weight, front elevation and front/rear grade of every saved step is recomputed from definitions at front and rear positions; held on all observed steps.",
            "level_note": TRAIN_NOTE + " Backward evaluation is driven on clones exactly as BrakingPoints::recalc does (Dir::Unk at the path end, then decreasing offsets with Dir::Bwd) and compared call by call.",
            "floors": {"quick": {"distinct_nontrivial": 100, "obs.rows": 100000, "obs.rows_front_rear_in_different_grade_pieces": 20000, "obs.backward_eval_calls": 20000},
                       "thorough": {"distinct_nontrivial": 5000, "obs.rows": 5000000}}},
    "C11": {"level": "exploration",
            "technique": "runtime monitor: row-aligned comparison of train.history, loco_con.history and every loco history plus final totals and (annualised) getters; vector-level (SpeedLimitTrainSimVec) getters vs per-member totals times each member's own annualization factor",
            "level_text": "Power and cumulative energies are compared across train, consist and unit level in every saved row, and trip-level getters against totals x the documented factor for simulation_days in {None,1,7,365}; held on all observed runs.",
            "level_note": TRAIN_NOTE + " Final totals are compared only for runs that ended Ok (a step that fails half-way legitimately leaves unit sums ahead of the consist).",
            "floors": {"quick": {"distinct_nontrivial": 40, "obs.rows": 100000, "obs.annualised_getters": 50, "obs.final_totals": 200},
                       "thorough": {"distinct_nontrivial": 2000, "obs.rows": 5000000}}},
    "C12": {"level": "exploration",
            "technique": "runtime monitor: kinematic identities and path mapping on every saved TrainState row (time step, trapezoid position update, rear position alignment, total distance, front segment + in-segment offset against PathTpc link points)",
            "level_text": "Each saved step of generated set-speed and speed-limited runs over routes with 30 m - 6 km links is checked; held on all observed steps.",
            "level_note": TRAIN_NOTE + " The rear position is accepted in either of two alignments (front[k]-L or front[k-1]-L) provided one alignment is used through the run (the code evaluates the rear when forces are computed).",
            "floors": {"quick": {"distinct_nontrivial": 100, "obs.rows": 100000, "obs.steps_crossing_1_boundary": 500},
                       "thorough": {"distinct_nontrivial": 5000, "obs.rows": 5000000}}},
    "C14": {"level": "exploration",
            "technique": "runtime monitor: SetSpeedTrainSim history vs its SpeedTrace (bitwise time/speed), inertia/resistance power identities, clip values checked against limits published in the consist history, shadow energy sum with trace dt; negative-speed traces must be rejected; published dynamic-braking capability vs the sum of the units' drivetrain ratings",
            "level_text": "Every row of generated set-speed runs (irregular stamps, saturating and non-saturating accelerations) is checked; 15 % of traces carry a negative speed at a random index and must end with Err; held on all observed runs.",
            "level_note": TRAIN_NOTE + " The rate-limited clip bound is accepted with either the previous or the current step size (the code uses the previous one).",
            "floors": {"quick": {"distinct_nontrivial": 100, "obs.rows": 100000, "obs.clipped_steps": 5000, "obs.unclipped_steps": 20000, "obs.negative_speed_traces": 40, "obs.rolling_start_on_default_initial_state": 100},
                       "thorough": {"distinct_nontrivial": 5000, "obs.rows": 5000000}}},
    "C19": {"level": "exploration",
            "technique": "runtime monitor: generic walker over the object tree collecting (len, i column, state.i, save_interval) of every history after runs of all four simulation kinds, all intervals, runs ending with an error",
            "level_text": "After each generated run the whole tree of histories is checked for equal lengths, same step per row, equal counters, the expected row count and interval propagation; held on all observed runs.",
            "level_note": TRAIN_NOTE,
            "floors": {"quick": {"distinct_nontrivial": 50, "obs.trees_checked": 1000, "obs.histories_checked": 10000, "obs.loco_sim_ended_with_err": 50, "obs.consist_sim_ended_with_err": 50, "obs.hybrid_loco_sims": 100},
                       "thorough": {"distinct_nontrivial": 2000, "obs.trees_checked": 40000}}},
})

PROPS["C20"] = {"level": "exploration",
    "technique": "runtime monitor: invariants on getters and serialized private fields after every call of random setter sequences (all side-effect options, all known/unknown patterns, loads with redundant mass data); rejected calls must leave getter results unchanged",
    "level_text": "Tens of thousands of random setter sequences over components and locomotives; after each call the consistency invariants and the option-specific side effects are checked, rejected calls are checked for half-application; consist and train roll-ups are compared with sums; held on all observed sequences.",
    "level_note": "Trusted: serde field names of the private mass fields; the harness's statement of each option's documented side effect (harness/src/mon/mass.rs). The pyo3-only mass/specific getters are not observed (cannot be linked); the underlying fields are.",
    "floors": {"quick": {"distinct_nontrivial": 200, "obs.component_invariants_checked": 20000, "obs.loco_invariants_checked": 10000, "obs.loco_rejected_calls": 2000, "obs.consists": 1000, "obs.trains_built": 500},
               "thorough": {"distinct_nontrivial": 10000, "obs.loco_invariants_checked": 500000}}}

PROPS["C17"] = {"level": "fault_enumeration", "exhaustive": True,
    "technique": "checkpoint enumeration under a runtime monitor: every step index of short simulations x {yaml,json,bincode} x simulation kind is a save/load/resume point whose continuation is compared with the uninterrupted run; every exported type in default/valid/generated state is round-tripped twice per format (drift, data equality)",
    "level_text": "For each generated short simulation the set of checkpoint positions is enumerated completely (every step index, every format); verdict per checkpoint is equality of the resumed and the uninterrupted final objects. Object shapes are sampled, so the claim is exhaustive per simulation, exploratory across simulations.",
    "level_note": "Trusted: serde_yaml value comparison as the notion of equality (bitwise for yaml/bincode, 4e-16 relative per number right after a json load, 1e-9 after resuming a json-loaded simulation). Known findings (bincode with omitted default/None fields, json with non-finite numbers) are keyed on the omitted field / the non-finite field.",
    "floors": {"quick": {"distinct_nontrivial": 300, "obs.roundtrips": 20000, "obs.checkpoints": 10000, "obs.sim_runs.LocomotiveSimulation": 20, "obs.sim_runs.ConsistSimulation": 20, "obs.sim_runs.SetSpeedTrainSim": 20, "obs.sim_runs.SpeedLimitTrainSim": 10},
               "thorough": {"distinct_nontrivial": 15000, "obs.checkpoints": 500000}}}

DISP_NOTE = ("Trusted: the observer hook (altrios_core::verif_hooks, feature verif: synchronous, read-only, borrowed views), the harness's reconstruction of occupancy windows from the final dispatch paths (harness/src/mon/dispatch.rs). "
             "Assumed: generated corridor family (5..45 gaps, 0.4-6 km links, sidings, two origins/destinations, optional lockouts, every segment with its flip) plus the shipped Taconite network with the crate's example trains; estimated-time construction must succeed for a train to take part.")
PROPS.update({
    "C15": {"level": "exploration",
            "technique": "runtime monitor: full traversal of every EstTimeNet returned by make_est_times (reciprocity per link, DFS enumeration of all start-to-end walks, event sequence vs track network, time/duration checks per node and per edge)",
            "level_text": "Every node, edge and (up to a recorded cap) every start-to-end walk of each generated estimated-time network is checked; held on all observed networks except for the listed known findings.",
            "level_note": DISP_NOTE + " get_running_time_hours exists only in the pyo3 build; the two fields it reads are checked instead.",
            "floors": {"quick": {"distinct_nontrivial": 100, "obs.nets": 200, "obs.walks": 20000, "obs.primary_edges": 20000},
                       "thorough": {"distinct_nontrivial": 4000, "obs.nets": 8000}}},
    "C04": {"level": "exploration",
            "technique": "runtime monitor via observer hook + offline checker: every dispatcher snapshot (after advance / after rewind / end of iteration / final) scanned for simultaneous authorities and blocked-links consistency; occupancy windows reconstructed from the final dispatch paths checked pairwise (opposing, lockout, headway, order); black-box front-occupancy check on returned timed paths",
            "level_text": "All snapshots of thousands of generated dispatches (with re-routes and rewinds observed and counted) and every pair of occupancy windows of every final plan are checked; held on all observed dispatches.",
            "level_note": DISP_NOTE + " Transient snapshots (after advance / after rewind) are recorded, only end-of-iteration and final states are held to the exclusion rule.",
            "floors": {"quick": {"distinct_nontrivial": 20, "obs.dispatch_ok": 150, "obs.opposing_window_pairs": 5000, "obs.follower_pairs": 5000, "obs.snapshots_end_of_iteration": 2000, "obs.snapshots_after_rewind": 20},
                       "thorough": {"distinct_nontrivial": 800, "obs.dispatch_ok": 6000}}},
    "C05": {"level": "exploration", "owns_aborts": True,
            "variants": {"quick": ["rel", "chk"], "thorough": ["rel", "chk"]},
            "technique": "runtime monitor on run_dispatch results and the hook's final snapshot (route validity, free-running lower bound per leg, iteration bound) in two builds: as shipped and with debug-assertions/overflow-checks for altrios-core (ub_checks on the get_unchecked sentinel searches); a committed regression corpus of 21 dispatch instances that once exposed a defect (both tiers), valgrind memcheck on the shipped-profile binary (both tiers) and AddressSanitizer and Miri runs (thorough tier) of the same dispatch workload",
            "level_text": "Every returned plan is checked for completeness and validity against the network and the train's own estimated-time network; panics/aborts in either build are violations; bounded progress decided on logical steps (advance attempts per outer iteration <= 20000, outer iterations <= 200 x dispatch nodes; observed maxima recorded). Memory safety is 'no report on the executions observed' from ub_checks and valgrind memcheck (all runs) and ASan / Miri (thorough); the evidence counts how often each of the five unsafe blocks was executed under each engine.",
            "level_note": DISP_NOTE + " Unbounded termination is restated as bounded progress. A clean sanitizer run is not a proof of memory safety.",
            "floors": {"quick": {"distinct_nontrivial": 20, "obs.dispatch_ok": 300, "obs.legs_checked": 20000, "obs.rewinds": 20, "obs.trains_rerouted_off_the_shortest_route": 5},
                       "thorough": {"distinct_nontrivial": 800, "obs.dispatch_ok": 12000}}},
})

def _eng(name):
    def run(here, prop, tier, seed):
        import importlib.util, os
        spec = importlib.util.spec_from_file_location("sanit", os.path.join(here, "tools", "sanit.py"))
        mod = importlib.util.module_from_spec(spec)
        spec.loader.exec_module(mod)
        return mod.ENGINES[name](here, prop, tier, seed)
    run.__name__ = name
    return run


PROPS["C05"]["engines"] = {"quick": [_eng("regress-dispatch"), _eng("memcheck-dispatch")], "thorough": [_eng("regress-dispatch"), _eng("memcheck-dispatch"), _eng("asan-dispatch"), _eng("miri-dispatch")]}
PROPS["C05"]["floors"]["quick"].update({"obs.unsafe_block_executions.free_path::calc_idx_sentinels": 100, "obs.unsafe_block_executions.free_path::add_blocking_trains": 100,
                                        "obs.unsafe_block_executions.free_path::find_train_intersect::single": 50, "obs.unsafe_block_executions.free_path::find_train_intersect::range": 20,
                                        "obs.unsafe_block_executions.free_path::find_train_intersect::check": 20})

PROPS["C18"] = {"level": "exploration", "process_rounds": {"quick": 4, "thorough": 6},
    "engines": {"thorough": [_eng("tsan-batch"), _eng("asan-batch"), _eng("miri-batch")]},
    "technique": "runtime monitor: byte-wise comparison of output digests of every pipeline across repeated executions in one process and across several fresh processes (different hash-map seeds); element-wise comparison of LocomotiveSimulationVec::walk(parallel) under rayon pools of 1..16 threads with each element's own serial walk; thorough tier adds ThreadSanitizer (-Zbuild-std), AddressSanitizer and Miri (Tree Borrows, several seeds and pool sizes) runs of the batch walk",
    "level_text": "Outputs of thousands of generated simulations, estimated-time constructions and dispatches are compared between repeated and fresh-process executions, and every element of generated batches between parallel and serial walks for eight pool sizes; held on all observed executions. Scheduling coverage is what the pool sizes, repetitions, TSan's happens-before analysis and Miri's seeds provide; rayon interleavings cannot be enumerated.",
    "level_note": "Trusted: YAML serialization of the result objects as their identity (result types contain no hash maps); FNV/SplitMix digest collisions are negligible (length is part of the digest).",
    "floors": {"quick": {"distinct_nontrivial": 300, "obs.digests_compared_across_processes": 3000, "obs.parallel_batch_walks": 1000, "obs.elements_compared": 50000, "obs.batches_with_failing_elements": 20, "obs.pipeline.make_est_times": 50, "obs.pipeline.run_dispatch": 30},
               "thorough": {"distinct_nontrivial": 10000, "obs.digests_compared_across_processes": 100000}}}
