#!/bin/bash
# Independently confirm a candidate mutant in a scratch worktree (outside /repo and /verif):
#   tools/confirm_mutant.sh <worktree> <dir with patch.diff + demo.rs>
# 1. patch applies and the workspace test suite still passes (102 tests)
# 2. the demo fails with the patch  3. the demo passes without it
# Writes <dir>/confirm.json. The worktree is left pristine.
set -u
WT="$1"; D="$2"
cd "$WT" || exit 2
git checkout -q -- . ; git clean -qfd -e rust/target
res() { echo "{\"applies\": $1, \"suite_passed\": $2, \"suite_failed\": $3, \"demo_with_patch_fails\": $4, \"demo_without_patch_passes\": $5}" > "$D/confirm.json"; cat "$D/confirm.json"; }
if ! git apply --check "$D/patch.diff" 2>/dev/null; then res false 0 0 false false; exit 1; fi
git apply "$D/patch.diff"
cp "$D/demo.rs" rust/altrios-core/tests/vp_demo.rs 2>/dev/null || { mkdir -p rust/altrios-core/tests; cp "$D/demo.rs" rust/altrios-core/tests/vp_demo.rs; }
cd rust
out=$(cargo test --workspace --no-fail-fast --offline -j8 -- --skip __nonexistent__ 2>&1)
echo "$out" > "$D/confirm_suite.log"
# count results excluding the demo test binary
passed=$(echo "$out" | awk '/Running tests\/vp_demo.rs/{skip=1} /Running unittests|Doc-tests/{skip=0} /^test result:/{ if(!skip){p+=$4; f+=$6} } END{print p+0}')
failed=$(echo "$out" | awk '/Running tests\/vp_demo.rs/{skip=1} /Running unittests|Doc-tests/{skip=0} /^test result:/{ if(!skip){p+=$4; f+=$6} } END{print f+0}')
if cargo test --offline -j8 -p altrios-core --test vp_demo > "$D/confirm_demo_with.log" 2>&1; then with_fails=false; else with_fails=true; fi
cd "$WT"; git apply -R "$D/patch.diff"; cd rust
if cargo test --offline -j8 -p altrios-core --test vp_demo > "$D/confirm_demo_without.log" 2>&1; then without_passes=true; else without_passes=false; fi
cd "$WT"; rm -f rust/altrios-core/tests/vp_demo.rs; git checkout -q -- . ; git clean -qfd -e rust/target
res true "$passed" "$failed" "$with_fails" "$without_passes"
