#!/usr/bin/env python3
"""Copy a confirmed seeded change into /verif/seeded/<id>/ with meta.json.
  tools/keep_mutant.py <src dir> <id> <property> <caught_by: comma list or 'none'> <needs: text> [note]"""
import json, os, shutil, sys
src, mid, prop, caught, needs = sys.argv[1:6]
note = sys.argv[6] if len(sys.argv) > 6 else ""
HERE = os.path.dirname(os.path.dirname(os.path.abspath(__file__)))
dst = os.path.join(HERE, "seeded", mid)
os.makedirs(dst, exist_ok=True)
for f in ("patch.diff", "demo.rs", "notes.md", "confirm.json"):
    if os.path.exists(os.path.join(src, f)):
        shutil.copy(os.path.join(src, f), os.path.join(dst, f))
conf = json.load(open(os.path.join(src, "confirm.json")))
meta = {
    "id": mid, "breaks_property": prop, "needs_to_manifest": needs,
    "source": "independent sub-agent given only the property text and a scratch worktree",
    "confirmed_in_scratch_worktree": conf,
    "ran": ["tools/confirm_mutant.sh <worktree> <dir>  (applies patch; cargo test --workspace --no-fail-fast --offline; demo fails with patch, passes without)",
            f"tools/try_mutant.sh seeded/{mid}/patch.diff {prop}  (git -C /repo apply; ./check; git -C /repo checkout -- .)"],
    "detected_by_checks": [] if caught == "none" else caught.split(","),
    "note": note,
}
json.dump(meta, open(os.path.join(dst, "meta.json"), "w"), indent=1)
print("kept", dst)
