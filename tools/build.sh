#!/bin/bash
# Build the harness against /repo's CURRENT working tree (cargo fingerprints decide what to rebuild).
#   tools/build.sh [rel] [chk]      (default: rel)
# Produces /verif/bin/av-rel (as shipped: debug-assertions off) and/or /verif/bin/av-chk
# (altrios-core compiled with debug-assertions + overflow-checks => ub_checks on get_unchecked).
# Exit 0 ok, 2 build failure (a tree that does not compile is inconclusive, never a violation).
set -u
HERE="$(cd "$(dirname "$0")/.." && pwd)"
cd "$HERE/harness" || exit 2
export CARGO_NET_OFFLINE=true
export CARGO_TERM_COLOR=never
mkdir -p "$HERE/bin"
variants=("$@")
[ ${#variants[@]} -eq 0 ] && variants=(rel)
# keep the lock file identical to the repository's (same dependency closure, resolves offline)
if [ ! -f Cargo.lock ]; then cp /repo/rust/Cargo.lock Cargo.lock; fi
exec 9>"$HERE/bin/.build.lock"
flock 9
python3 "$HERE/tools/debug_assert_sites.py" > "$HERE/bin/debug_assert_sites.txt" 2>/dev/null || true
for v in "${variants[@]}"; do
  case "$v" in
    rel) extra=() ;;
    chk) extra=(--config 'profile.verif.package.altrios-core.debug-assertions=true' --config 'profile.verif.package.altrios-core.overflow-checks=true') ;;
    *) echo "unknown variant $v" >&2; exit 2 ;;
  esac
  log="$HERE/bin/build-$v.log"
  if ! cargo build --offline --profile verif "${extra[@]}" >"$log" 2>&1; then
    echo "BUILD-FAILED variant=$v (see $log)" >&2
    grep -E "^error" -A8 "$log" | head -40 >&2
    exit 2
  fi
  cp -f target/verif/av "$HERE/bin/av-$v.tmp" && mv -f "$HERE/bin/av-$v.tmp" "$HERE/bin/av-$v"
  cp -f target/verif/avs "$HERE/bin/avs-$v.tmp" && mv -f "$HERE/bin/avs-$v.tmp" "$HERE/bin/avs-$v"
done
exit 0
