#!/bin/bash
# Optional part of the setup: prepare the nightly-toolchain builds used by the sanitizer engines
# (tools/sanit.py) so that the thorough checks only rebuild what changed. Offline; everything stays
# under /verif/sanit (git-ignored). A failure here only makes those engines report `unavailable`.
set -u
HERE="$(cd "$(dirname "$0")/.." && pwd)"
cd "$HERE" || exit 1
export CARGO_NET_OFFLINE=true
bash tools/vendor_nightly_deps.sh || exit 1
python3 - <<'PY' || exit 1
import sys, os
sys.path.insert(0, os.path.join(os.getcwd(), "tools"))
import sanit
ok = True
e = sanit.build_miri()
print("miri build:", e or "ok"); ok &= e is None
for san, std in (("address", False), ("thread", True)):
    exe, e = sanit.build_native_sanitizer(san, build_std=std)
    print(san, "sanitizer build:", e or "ok"); ok &= e is None
sys.exit(0 if ok else 1)
PY
