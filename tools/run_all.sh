#!/bin/bash
# run every claimed check at the given tier (default quick); prints one line per check
HERE="$(cd "$(dirname "$0")/.." && pwd)"; cd "$HERE"
TIER="${1:-quick}"
for p in $(python3 -c "import json;print(' '.join(c['property_id'] for c in json.load(open('MANIFEST.json'))['checks']))"); do
  out=$(./check $p --tier $TIER 2>&1); rc=$?
  echo "$p exit=$rc $(echo "$out" | grep -c '^VIOLATION') violations $(echo "$out" | grep -c '^KNOWN-FINDING') known | $(echo "$out" | tail -1)"
  echo "$out" | grep -E '^INCONCLUSIVE' | head -3
done
