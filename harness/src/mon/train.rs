//! Train-simulation monitors on shared executions: C03 (speed-limited run safety), C07 (resistance
//! forces), C11 (cross-level power/energy agreement), C12 (kinematic bookkeeping), C14 (set-speed
//! run follows trace), C19 (history alignment). A clause raises a violation only for `ctx.prop`.
use crate::gen::network::{self as gn, GenNet, NetOpts};
use crate::gen::train::{self as gt, TrainSpec};
use crate::mon::path::{ref_covers, ref_limit};
use crate::panics;
use crate::report::{close, jf, Ctx};
use crate::rng::{hash_f64s, mix, Rng};
use altrios_core::consist::locomotive::PowertrainType;
use altrios_core::prelude::*;
use altrios_core::track::{LinkIdx, PathResCoeff, PathTpc, TrainParams};
use altrios_core::train::TrainState;
use altrios_core::traits::SerdeAPI;
use altrios_core::uc;
use serde_json::{json, Value};
use std::panic::AssertUnwindSafe;

fn emit(ctx: &mut Ctx, prop: &str, clause: &str, sig: &str, msg: String, detail: Value) {
    if ctx.prop == prop {
        ctx.violate(clause, sig, msg, detail);
    }
}
fn obs(ctx: &mut Ctx, prop: &str, key: &str) {
    if ctx.prop == prop {
        ctx.count(key);
    }
}
fn obsn(ctx: &mut Ctx, prop: &str, key: &str, n: u64) {
    if ctx.prop == prop {
        ctx.add(key, n);
    }
}

pub fn sim_net_opts(rng: &mut Rng) -> NetOpts {
    let mut o = NetOpts::path_default(rng);
    o.gaps = (2, 8);
    o.len = if rng.chance(0.3) { (30.0, 400.0) } else { (300.0, 6000.0) };
    o.grade_max = *rng.pick(&[0.0, 0.004, 0.01, 0.018]);
    o.max_restrictions = 4;
    o.v_min = if rng.chance(0.2) { 2.0 } else { 4.5 };
    o.p_cat = 0.15;
    o.p_staircase = if rng.chance(0.4) { 0.5 } else { 0.0 };
    // a share of the networks has many links far shorter than one step of travel (several
    // boundaries crossed per step)
    if rng.chance(0.2) {
        o.gaps = (10, 60);
        o.short_links = Some((0.85, 2.0, 12.0));
        o.p_double = 0.05;
        o.max_restrictions = 2;
        o.v_min = 8.0;
    }
    o
}

pub struct Built {
    pub net: GenNet,
    pub spec: TrainSpec,
    pub route: Vec<LinkIdx>,
    pub route_len: f64,
    pub reverse: bool,
}

/// "phase scan" case: a heavy train holding line speed on a gentle downgrade approaches a slowdown (single
/// step or staircase) whose position is varied metre by metre over one time step of travel, so that every
/// phase between the train's discrete positions and the braking curve is exercised
pub fn build_phase_case(rng: &mut Rng) -> Option<Built> {
    use altrios_core::track::{Elev, Link, SpeedLimit, SpeedSet, TrainType};
    let len = 20000.0;
    let g2 = *rng.pick(&[0.0, -0.001, -0.002, 0.002]);
    let elevs = vec![Elev::new(uc::M * 0.0, uc::M * 0.0), Elev::new(uc::M * 6500.0, uc::M * -26.0), Elev::new(uc::M * len, uc::M * (-26.0 + g2 * (len - 6500.0)))];
    let s = 8000.0 + rng.range(0.0, 25.0);
    let mut limits = vec![];
    if rng.chance(0.4) {
        limits.push(SpeedLimit { offset_start: uc::M * s, offset_end: uc::M * 12000.0, speed: uc::MPS * *rng.pick(&[4.0, 8.5, 12.0, 15.0]) });
    } else {
        let mut x = s;
        let mut sp = *rng.pick(&[16.0, 17.9, 14.0]);
        for _ in 0..rng.usize(2, 3) {
            let w = rng.range(30.0, 120.0);
            limits.push(SpeedLimit { offset_start: uc::M * x, offset_end: uc::M * (x + w), speed: uc::MPS * sp });
            x += w;
            sp = (sp - rng.range(3.0, 5.0)).max(5.0);
        }
        limits.push(SpeedLimit { offset_start: uc::M * x, offset_end: uc::M * 12000.0, speed: uc::MPS * (sp - rng.range(2.0, 8.0)).max(2.0) });
    }
    let set = SpeedSet { speed_limits: limits, speed_params: vec![], is_head_end: rng.chance(0.3) };
    let mut link = Link { idx_curr: LinkIdx::new(1), length: uc::M * len, elevs, ..Default::default() };
    link.speed_set = Some(set);
    let links = vec![Link::default(), link];
    if gn::validate(&links).is_err() {
        return None;
    }
    let net = GenNet { links, gaps: vec![vec![1]], has_flips: false, train_types: vec![TrainType::Freight], flags: vec!["phase_scan"] };
    // heavy train: loaded cars behind few locomotives (small dynamic-brake share)
    let mut rv = altrios_core::prelude::RailVehicle::from_file("/repo/python/altrios/resources/rolling_stock/Manifest_Loaded.yaml").ok()?;
    rv.speed_max = uc::MPS * 20.0;
    let ncars = rng.usize(40, 110) as u32;
    let mut n_by = std::collections::HashMap::new();
    n_by.insert(rv.car_type.clone(), ncars);
    let length = rv.length.value * ncars as f64;
    let towed = (rv.mass_static_base.value + rv.mass_freight.value) * ncars as f64;
    let config = TrainConfig::new(vec![rv], n_by, TrainType::Freight, None, None, None).ok()?;
    let nl = rng.usize(1, 4);
    let consist = Consist::new(vec![Locomotive::default(); nl], None, Default::default());
    let spec = TrainSpec { config, consist, n_cars: ncars, length, towed_mass: towed, kinds: vec![crate::gen::powertrain::Kind::Conv; nl] };
    Some(Built { net, spec, route: vec![LinkIdx::new(1)], route_len: len, reverse: false })
}

/// network + route + train that fits on the route
pub fn build_case(rng: &mut Rng, min_route: f64) -> Option<Built> {
    for _ in 0..20 {
        let o = sim_net_opts(rng);
        let net = gn::network(rng, &o);
        if gn::validate(&net.links).is_err() {
            continue;
        }
        let reverse = net.has_flips && rng.chance(0.3);
        let route = net.route(rng, reverse, true);
        let route_len: f64 = route.iter().map(|l| net.links[l.idx()].length.value).sum();
        if route_len < min_route {
            continue;
        }
        let max_len = (route_len * 0.4).min(2800.0).max(70.0);
        let spec = gt::train(rng, &net.train_types, max_len, o.grade_max);
        if spec.length + 50.0 >= route_len {
            continue;
        }
        return Some(Built { net, spec, route, route_len, reverse });
    }
    None
}

fn case_json(b: &Built) -> Value {
    let cfg = &b.spec.config;
    json!({
        "route": b.route.iter().map(|l| { let k = &b.net.links[l.idx()]; json!({"idx": l.idx(), "len_m": k.length.value,
            "elevs": k.elevs.iter().map(|e| json!([e.offset.value, e.elev.value])).collect::<Vec<_>>(),
            "speed_set": k.speed_set.as_ref().map(|s| json!({"head_end": s.is_head_end, "limits": s.speed_limits.iter().map(|r| json!([r.offset_start.value, r.offset_end.value, r.speed.value])).collect::<Vec<_>>()})),
            "typed_sets": k.speed_sets.iter().map(|(t, s)| json!({"type": format!("{t:?}"), "head_end": s.is_head_end, "limits": s.speed_limits.iter().map(|r| json!([r.offset_start.value, r.offset_end.value, r.speed.value])).collect::<Vec<_>>()})).collect::<Vec<_>>()}) }).collect::<Vec<_>>(),
        "train": {"cars": b.spec.n_cars, "length_m": b.spec.length, "towed_mass_kg": b.spec.towed_mass, "type": format!("{:?}", cfg.train_type),
            "vehicles": cfg.rail_vehicles.iter().map(|r| json!({"type": r.car_type, "n": cfg.n_cars_by_type.get(&r.car_type), "len": r.length.value, "mass": r.mass_static_base.value + r.mass_freight.value, "vmax": r.speed_max.value, "braking_ratio": r.braking_ratio.value})).collect::<Vec<_>>(),
            "length_override": cfg.train_length.map(|x| x.value), "mass_override": cfg.train_mass.map(|x| x.value)},
        "consist": b.spec.kinds.iter().map(|k| format!("{k:?}")).collect::<Vec<_>>(),
        "reverse": b.reverse,
    })
}

// ------------------------------------------------------------------ reference evaluation helpers

fn piece(v: &[PathResCoeff], x: f64) -> usize {
    // stateless binary search: largest i with offset[i] <= x (clamped)
    let (mut lo, mut hi) = (0usize, v.len() - 1);
    if x <= v[0].offset.value {
        return 0;
    }
    while hi - lo > 1 {
        let mid = (lo + hi) / 2;
        if v[mid].offset.value <= x {
            lo = mid
        } else {
            hi = mid
        }
    }
    if v[hi].offset.value <= x {
        hi
    } else {
        lo
    }
}
fn cum(v: &[PathResCoeff], x: f64) -> f64 {
    let i = piece(v, x).min(v.len() - 1);
    v[i].res_net.value + v[i].res_coeff.value * (x - v[i].offset.value)
}
/// admissible slopes at x (both neighbours at an exact breakpoint)
fn slopes(v: &[PathResCoeff], x: f64) -> Vec<f64> {
    let i = piece(v, x);
    let mut s = vec![v[i].res_coeff.value];
    if v[i].offset.value == x && i > 0 {
        s.push(v[i - 1].res_coeff.value);
    }
    if i + 1 < v.len() && v[i + 1].offset.value == x {
        s.push(v[i + 1].res_coeff.value);
    }
    s
}

pub struct ResCoeffs {
    pub bearing: f64,
    pub rolling: f64,
    pub davis_b: f64,
    pub cd_area: f64,
}

pub fn res_coeffs_from_json(v: &Value) -> Option<ResCoeffs> {
    let s = v.get("Strap").or_else(|| v.get("Point"))?;
    Some(ResCoeffs {
        bearing: s.get("bearing")?.get("force")?.as_f64()?,
        rolling: s.get("rolling")?.get("ratio")?.as_f64()?,
        davis_b: s.get("davis_b")?.get("davis_b")?.as_f64()?,
        cd_area: s.get("aerodynamic")?.get("cd_area")?.as_f64()?,
    })
}

/// coefficients re-derived from the rail vehicles (per-axle totals, mass-weighted ratios)
pub fn res_coeffs_from_config(cfg: &TrainConfig, towed: f64) -> ResCoeffs {
    let n = |rv: &RailVehicle| *cfg.n_cars_by_type.get(&rv.car_type).unwrap_or(&0) as f64;
    let bearing = cfg.rail_vehicles.iter().map(|r| r.bearing_res_per_axle.value * r.axle_count as f64 * n(r)).sum();
    let rolling = cfg.rail_vehicles.iter().map(|r| r.rolling_ratio.value * (r.mass_static_base.value + r.mass_freight.value) * n(r)).sum::<f64>() / towed;
    let davis_b = cfg.rail_vehicles.iter().map(|r| r.davis_b.value * (r.mass_static_base.value + r.mass_freight.value) * n(r)).sum::<f64>() / towed;
    let cd_area = match &cfg.cd_area_vec {
        Some(v) => v.iter().map(|a| a.value).sum(),
        None => cfg.rail_vehicles.iter().map(|r| r.cd_area.value * n(r)).sum(),
    };
    ResCoeffs { bearing, rolling, davis_b, cd_area }
}

pub struct RunData<'a> {
    pub b: &'a Built,
    pub what: &'static str,
    /// row 0 = state before the first step; row k = state saved after step k
    pub rows: Vec<TrainState>,
    pub path: &'a PathTpc,
    pub res: ResCoeffs,
    pub consist_mass: f64,
}

fn row_json(r: &TrainState) -> Value {
    json!({"i": r.i, "time": r.time.value, "offset": r.offset.value, "offset_back": r.offset_back.value, "speed": r.speed.value,
        "speed_limit": r.speed_limit.value, "speed_target": r.speed_target.value, "dt": r.dt.value, "link_idx_front": r.link_idx_front,
        "offset_in_link": r.offset_in_link.value, "res_grade": r.res_grade.value, "res_curve": r.res_curve.value, "grade_front": r.grade_front.value,
        "grade_back": r.grade_back.value, "elev_front": r.elev_front.value, "pwr_whl_out": r.pwr_whl_out.value, "total_dist": r.total_dist.value})
}

// ------------------------------------------------------------------ C07

pub fn check_c07(ctx: &mut Ctx, d: &RunData) -> (bool, bool) {
    if ctx.prop != "C07" {
        return (false, false);
    }
    let grades = d.path.grades();
    let curves = d.path.curves();
    let l = d.rows[0].length.value;
    let w_ref = 9.801_548_494_963_14 * d.rows[0].mass_static.value;
    let (mut straddle, mut jump3) = (false, false);
    // coefficients stored in the resistance model agree with the rail vehicles
    let rc = res_coeffs_from_config(&d.b.spec.config, d.b.spec.towed_mass);
    for (name, a, bb) in [("bearing", d.res.bearing, rc.bearing), ("rolling", d.res.rolling, rc.rolling), ("davis_b", d.res.davis_b, rc.davis_b), ("cd_area", d.res.cd_area, rc.cd_area)] {
        ctx.count("obs.coefficient_derivation");
        if !close(a, bb, 1e-9, 0.0) {
            ctx.violate("coefficient_derivation", &format!("C07:coefficient_derivation:{name}"), format!("[{}] {name} coefficient in resistance model {a} != derived from rail vehicles {bb}", d.what), json!({"case": case_json(d.b)}));
        }
    }
    // static mass = cars (or override) + consist
    ctx.count("obs.weight_mass");
    if !close(d.rows[0].mass_static.value, d.b.spec.towed_mass + d.consist_mass, 1e-12, 0.0) {
        ctx.violate("weight_mass", "C07:weight_mass", format!("[{}] mass_static {} != towed {} + consist {}", d.what, d.rows[0].mass_static.value, d.b.spec.towed_mass, d.consist_mass), json!({"case": case_json(d.b)}));
    }
    let emax = grades.iter().map(|g| g.res_net.value.abs()).fold(1.0, f64::max);
    let cmax = curves.iter().map(|g| g.res_net.value.abs()).fold(1e-9, f64::max);
    for k in 1..d.rows.len() {
        let r = &d.rows[k];
        let p = &d.rows[k - 1];
        let (x, v) = (p.offset.value, p.speed.value);
        let xb = x - l;
        let mut bad = |ctx: &mut Ctx, clause: &str, got: f64, want: String| {
            let sig = format!("C07:{clause}");
            ctx.violate(clause, &sig, format!("[{}] step {k}: {clause} = {got} but definition gives {want} (front x={x}, rear x={xb}, v={v})", d.what),
                json!({"row": row_json(r), "prev_row": row_json(p), "case": case_json(d.b)}));
        };
        ctx.count("obs.rows");
        if !close(r.weight_static.value, w_ref, 1e-12, 0.0) {
            bad(ctx, "weight_static", r.weight_static.value, format!("{w_ref}"));
        }
        let w = w_ref;
        let g_ref = w * (cum(grades, x) - cum(grades, xb)) / l;
        let gtol = w * (1e-12 * emax * 8.0 / l) + 1e-9 * g_ref.abs();
        if (r.res_grade.value - g_ref).abs() > gtol {
            bad(ctx, "res_grade", r.res_grade.value, format!("{g_ref}"));
        }
        let c_ref = w * (cum(curves, x) - cum(curves, xb)) / l;
        let ctol = w * (1e-12 * cmax * 8.0 / l) + 1e-9 * c_ref.abs();
        if (r.res_curve.value - c_ref).abs() > ctol {
            bad(ctx, "res_curve", r.res_curve.value, format!("{c_ref}"));
        }
        if !close(r.res_rolling.value, d.res.rolling * w, 1e-12, 0.0) {
            bad(ctx, "res_rolling", r.res_rolling.value, format!("{}", d.res.rolling * w));
        }
        if !close(r.res_davis_b.value, d.res.davis_b * v * w, 1e-12, 0.0) {
            bad(ctx, "res_davis_b", r.res_davis_b.value, format!("{}", d.res.davis_b * v * w));
        }
        if !close(r.res_bearing.value, d.res.bearing, 1e-12, 0.0) {
            bad(ctx, "res_bearing", r.res_bearing.value, format!("{}", d.res.bearing));
        }
        if !close(r.res_aero.value, d.res.cd_area * 1.225 * v * v, 1e-12, 0.0) {
            bad(ctx, "res_aero", r.res_aero.value, format!("{}", d.res.cd_area * 1.225 * v * v));
        }
        if !close(r.elev_front.value, cum(grades, x), 1e-11, emax) {
            bad(ctx, "elev_front", r.elev_front.value, format!("{}", cum(grades, x)));
        }
        let sf = slopes(grades, x);
        if !sf.iter().any(|s| close(*s, r.grade_front.value, 1e-12, 0.0)) {
            bad(ctx, "grade_front", r.grade_front.value, format!("{sf:?}"));
        }
        let sb = slopes(grades, xb);
        ctx.count("obs.grade_back_rows");
        if !sb.iter().any(|s| close(*s, r.grade_back.value, 1e-12, 0.0)) {
            bad(ctx, "grade_back", r.grade_back.value, format!("{sb:?}"));
        }
        let (pf, pb) = (piece(grades, x), piece(grades, xb));
        if pf != pb {
            straddle = true;
            ctx.count("obs.rows_front_rear_in_different_grade_pieces");
        }
        if k >= 2 && piece(grades, x) >= piece(grades, d.rows[k - 2].offset.value) + 3 {
            jump3 = true;
            ctx.count("obs.rows_front_index_jumps_3_pieces");
        }
    }
    (straddle, jump3)
}

// ------------------------------------------------------------------ C12

pub fn check_c12(ctx: &mut Ctx, d: &RunData) -> bool {
    if ctx.prop != "C12" {
        return false;
    }
    let lp = d.path.link_points();
    let l = d.rows[0].length.value;
    let mut align: Option<bool> = None; // true: rear = front[k]-L ; false: rear = front[k-1]-L
    let mut multi = false;
    for k in 1..d.rows.len() {
        let r = &d.rows[k];
        let p = &d.rows[k - 1];
        let mut bad = |ctx: &mut Ctx, clause: &str, msg: String| {
            ctx.violate(clause, &format!("C12:{clause}"), format!("[{}] step {k}: {msg}", d.what), json!({"row": row_json(r), "prev_row": row_json(p), "case": case_json(d.b)}));
        };
        ctx.count("obs.rows");
        let dt = r.dt.value;
        if !close(r.time.value - p.time.value, dt, 1e-12, r.time.value) {
            bad(ctx, "time_step", format!("time advanced by {} but dt = {dt}", r.time.value - p.time.value));
        }
        let dx = r.offset.value - p.offset.value;
        let want = dt * (p.speed.value + r.speed.value) / 2.0;
        if (dx - want).abs() > 1e-7 * want.abs() + 1e-12 * r.offset.value.abs() + 1e-9 {
            bad(ctx, "position_trapezoid", format!("front moved {dx} but dt*(v_prev+v)/2 = {want}"));
        }
        let a = close(r.offset_back.value, r.offset.value - l, 1e-12, r.offset.value);
        let bb = close(r.offset_back.value, p.offset.value - l, 1e-12, r.offset.value);
        if !(a || bb) {
            bad(ctx, "rear_position", format!("rear {} is neither front {} - L nor previous front {} - L (L = {l})", r.offset_back.value, r.offset.value, p.offset.value));
        } else if dx.abs() > 1e-6 {
            let this = a && !bb;
            match align {
                None => align = Some(this),
                Some(prev) if prev != this && !(a && bb) => bad(ctx, "rear_alignment_consistent", "rear position switches between the two admissible alignments within one run".into()),
                _ => {}
            }
        }
        let dd = r.total_dist.value - p.total_dist.value;
        if (dd - dx.abs()).abs() > 1e-9 * r.total_dist.value.abs().max(1.0) {
            bad(ctx, "total_dist", format!("total_dist grew by {dd} but |front move| = {}", dx.abs()));
        }
        // front segment and in-segment offset
        let x = r.offset.value;
        let mut ok = false;
        let mut crossed = 0;
        for i in 0..lp.len() - 1 {
            let (a0, a1) = (lp[i].offset.value, lp[i + 1].offset.value);
            if p.offset.value < a1 && a1 <= x {
                crossed += 1;
            }
            if a0 <= x && x <= a1 && lp[i].link_idx.idx() as u32 == r.link_idx_front {
                let oin = r.offset_in_link.value;
                if close(a0 + oin, x, 1e-12, x) && oin >= -1e-9 && oin <= (a1 - a0) * (1.0 + 1e-12) + 1e-9 {
                    ok = true;
                }
            }
        }
        if crossed >= 2 {
            multi = true;
            ctx.count("obs.steps_crossing_2+_boundaries");
        } else if crossed == 1 {
            ctx.count("obs.steps_crossing_1_boundary");
        }
        if !ok && x <= lp[lp.len() - 1].offset.value {
            bad(ctx, "segment_mapping", format!("front segment {} + in-segment offset {} does not identify front position {x}", r.link_idx_front, r.offset_in_link.value));
        }
    }
    multi
}

// ------------------------------------------------------------------ C11

pub struct Levels<'a> {
    pub train_rows: &'a [TrainState],
    pub con: &'a Consist,
    pub sim_days: Option<i32>,
}

pub fn check_c11(ctx: &mut Ctx, d: &RunData, con: &Consist, final_state: &TrainState, getters: Option<(f64, f64, f64, f64, f64)>, sim_days: Option<i32>, ended_ok: bool) -> bool {
    if ctx.prop != "C11" {
        return false;
    }
    let crow = con.history.state_vec();
    let lrows: Vec<Vec<LocomotiveState>> = con.loco_vec.iter().map(|l| l.history.state_vec()).collect();
    // the train history passed in `d.rows` has a synthetic row 0 when the sim saved none; use the sim's own
    let trows = &d.rows;
    let off = if trows.len() == crow.len() { 0 } else { 1 }; // train rows may include the harness-captured initial row
    let n = crow.len();
    let (mut pos, mut neg) = (false, false);
    for k in 0..n {
        if k + off >= trows.len() {
            break;
        }
        let t = &trows[k + off];
        let c = &crow[k];
        let mut bad = |ctx: &mut Ctx, clause: &str, msg: String| {
            ctx.violate(clause, &format!("C11:{clause}"), format!("[{}] saved row {k}: {msg}", d.what), json!({"train_row": row_json(t), "consist_row": {"i": c.i, "pwr_out_req": c.pwr_out_req.value, "pwr_out": c.pwr_out.value, "energy_out": c.energy_out.value}, "case": case_json(d.b)}));
        };
        ctx.count("obs.rows");
        if t.i != c.i || lrows.iter().any(|l| l.get(k).map(|x| x.i) != Some(c.i)) {
            bad(ctx, "row_alignment", format!("step indices differ: train {} consist {} locos {:?}", t.i, c.i, lrows.iter().map(|l| l.get(k).map(|x| x.i)).collect::<Vec<_>>()));
            continue;
        }
        if k == 0 && off == 0 && t.i == 1 && t.pwr_whl_out.value == 0.0 {
            continue; // initial row
        }
        let s: f64 = lrows.iter().map(|l| l[k].pwr_out.value).sum();
        let sa: f64 = lrows.iter().map(|l| l[k].pwr_out.value.abs()).sum();
        if t.pwr_whl_out.value > 0.0 { pos = true }
        if t.pwr_whl_out.value < 0.0 { neg = true }
        if !close(t.pwr_whl_out.value, c.pwr_out_req.value, 1e-12, 0.0) {
            bad(ctx, "train_demand_is_consist_request", format!("train pwr_whl_out {} != consist pwr_out_req {}", t.pwr_whl_out.value, c.pwr_out_req.value));
        }
        if !close(t.pwr_whl_out.value, c.pwr_out.value, 1e-8, sa) {
            bad(ctx, "consist_delivers_demand", format!("train pwr_whl_out {} != consist pwr_out {}", t.pwr_whl_out.value, c.pwr_out.value));
        }
        if !close(c.pwr_out.value, s, 1e-9, sa) {
            bad(ctx, "consist_is_sum_of_units", format!("consist pwr_out {} != sum over units {s}", c.pwr_out.value));
        }
        let es: f64 = lrows.iter().map(|l| l[k].energy_out.value).sum();
        let scale = c.energy_out_pos.value + c.energy_out_neg.value + t.energy_whl_out_pos.value + t.energy_whl_out_neg.value;
        for (clause, a, b2) in [
            ("energy_whl_out_train_vs_consist", t.energy_whl_out.value, c.energy_out.value),
            ("energy_whl_out_pos_train_vs_consist", t.energy_whl_out_pos.value, c.energy_out_pos.value),
            ("energy_whl_out_neg_train_vs_consist", t.energy_whl_out_neg.value, c.energy_out_neg.value),
            ("energy_out_consist_vs_units", c.energy_out.value, es),
            ("energy_pos_minus_neg", t.energy_whl_out_pos.value - t.energy_whl_out_neg.value, t.energy_whl_out.value),
        ] {
            if !close(a, b2, 1e-7, scale) {
                bad(ctx, clause, format!("{a} vs {b2}"));
            }
        }
    }
    if !ended_ok {
        // a step that failed half-way leaves unit-level sums ahead of the consist: not a completed step
        return pos && neg;
    }
    // final totals: fuel / battery across levels and getters
    let fuel_units: f64 = con.loco_vec.iter().map(|l| l.fuel_converter().map(|f| f.state.energy_fuel.value).unwrap_or(0.0)).sum();
    let res_units: f64 = con.loco_vec.iter().map(|l| l.reversible_energy_storage().map(|r| r.state.energy_out_chemical.value).unwrap_or(0.0)).sum();
    let res_abs: f64 = con.loco_vec.iter().map(|l| l.reversible_energy_storage().map(|r| r.state.energy_out_chemical.value.abs() + r.state.energy_loss.value + r.state.energy_out_electrical.value.abs()).unwrap_or(0.0)).sum();
    let mut badf = |ctx: &mut Ctx, clause: &str, msg: String| {
        ctx.violate(clause, &format!("C11:{clause}"), format!("[{}] final totals: {msg}", d.what), json!({"case": case_json(d.b)}));
    };
    ctx.count("obs.final_totals");
    if !close(con.state.energy_fuel.value, fuel_units, 1e-7, 0.0) || !close(con.get_energy_fuel().value, fuel_units, 1e-12, 0.0) {
        badf(ctx, "fuel_totals", format!("consist energy_fuel {} / get_energy_fuel {} vs sum over engines {fuel_units}", con.state.energy_fuel.value, con.get_energy_fuel().value));
    }
    if !close(con.state.energy_res.value, res_units, 1e-7, res_abs) || !close(con.get_net_energy_res().value, res_units, 1e-12, res_abs) {
        badf(ctx, "battery_totals", format!("consist energy_res {} / get_net_energy_res {} vs sum over batteries {res_units}", con.state.energy_res.value, con.get_net_energy_res().value));
    }
    if let Some((km, mgkm, efuel, eres, _)) = getters {
        let f = match sim_days {
            Some(dd) => 365.25 / dd as f64,
            None => 365.25,
        };
        ctx.count("obs.annualised_getters");
        let dist_km = final_state.total_dist.value / 1000.0;
        let freight_mg = final_state.mass_freight.value / 1000.0;
        if !close(km, dist_km * f, 1e-12, 0.0) {
            badf(ctx, "annualised_kilometers", format!("get_kilometers(true) {km} != total_dist {dist_km} km * {f}"));
        }
        if !close(mgkm, freight_mg * dist_km * f, 1e-12, 0.0) {
            badf(ctx, "annualised_megagram_kilometers", format!("get_megagram_kilometers(true) {mgkm} != freight {freight_mg} Mg * {dist_km} km * {f}"));
        }
        if !close(efuel, fuel_units * f, 1e-12, 0.0) {
            badf(ctx, "annualised_fuel", format!("get_energy_fuel(true) {efuel} != {fuel_units} * {f}"));
        }
        if !close(eres, res_units * f, 1e-12, res_abs * f) {
            badf(ctx, "annualised_battery", format!("get_net_energy_res(true) {eres} != {res_units} * {f}"));
        }
    }
    pos && neg
}

/// Trip-level outputs of a vector of finished runs (`SpeedLimitTrainSimVec`): each getter must be the sum of the
/// members' totals, every member scaled by its own documented factor (365.25 / its simulated days). The vector
/// holds the finished run and copies of it that belong to campaigns of other lengths, in both orders.
fn check_c11_trip_vector(ctx: &mut Ctx, what: &str, sim: &SpeedLimitTrainSim, sim_days: Option<i32>, b: &Built) {
    let with_days = |days: Option<i32>| -> Option<SpeedLimitTrainSim> {
        // through YAML: a finished path holds infinite sentinel offsets, which JSON cannot carry
        let mut v = serde_yaml::to_value(sim).ok()?;
        let dv = match days {
            Some(x) => serde_yaml::Value::Number((x as i64).into()),
            None => serde_yaml::Value::Null,
        };
        v.as_mapping_mut()?.insert(serde_yaml::Value::String("simulation_days".into()), dv);
        serde_yaml::from_value(v).ok()
    };
    let others: Vec<Option<i32>> = [None, Some(1), Some(7), Some(30), Some(365)].into_iter().filter(|x| *x != sim_days).collect();
    let pick = (ctx.case as usize) % others.len();
    let (o1, o2) = (others[pick], others[(pick + 1) % others.len()]);
    let (s1, s2) = match (with_days(o1), with_days(o2)) {
        (Some(a), Some(c)) => (a, c),
        _ => {
            ctx.count("obs.trip_vector_copy_not_loadable");
            return;
        }
    };
    let factor = |d: Option<i32>| d.map(|x| 365.25 / x as f64).unwrap_or(365.25);
    let fuel: f64 = sim.loco_con.loco_vec.iter().map(|l| l.fuel_converter().map(|f| f.state.energy_fuel.value).unwrap_or(0.0)).sum();
    let res: f64 = sim.loco_con.loco_vec.iter().map(|l| l.reversible_energy_storage().map(|r| r.state.energy_out_chemical.value).unwrap_or(0.0)).sum();
    let res_abs: f64 = sim.loco_con.loco_vec.iter().map(|l| l.reversible_energy_storage().map(|r| r.state.energy_out_chemical.value.abs() + r.state.energy_loss.value).unwrap_or(0.0)).sum();
    let km = sim.state.total_dist.value / 1000.0;
    let mgkm = sim.state.mass_freight.value / 1000.0 * km;
    for (order, members, days) in [("run_first", vec![sim.clone(), s1.clone(), s2.clone()], [sim_days, o1, o2]), ("run_last", vec![s2, s1, sim.clone()], [o2, o1, sim_days])] {
        let v = SpeedLimitTrainSimVec(members);
        for annualize in [false, true] {
            let fsum: f64 = days.iter().map(|d| if annualize { factor(*d) } else { 1.0 }).sum();
            ctx.count("obs.trip_vector_getters");
            for (name, got, want, abs) in [
                ("fuel", v.get_energy_fuel(annualize).value, fuel * fsum, 0.0),
                ("net_battery_energy", v.get_net_energy_res(annualize).value, res * fsum, res_abs * fsum),
                ("kilometers", v.get_kilometers(annualize), km * fsum, 0.0),
                ("megagram_kilometers", v.get_megagram_kilometers(annualize), mgkm * fsum, 0.0),
            ] {
                if !close(got, want, 1e-11, abs) {
                    ctx.violate("trip_vector_totals", &format!("C11:trip_vector_{name}"), format!("[{what}] SpeedLimitTrainSimVec of three campaigns (simulated days {days:?}, {order}), annualize={annualize}: {name} {got} != sum of the members' totals each scaled by its own factor {want}"), json!({"case": case_json(b)}));
                }
            }
        }
    }
}

// ------------------------------------------------------------------ C14

pub fn check_c14(ctx: &mut Ctx, d: &RunData, con: &Consist, time: &[f64], speed: &[f64]) -> (bool, bool) {
    if ctx.prop != "C14" {
        return (false, false);
    }
    let crow = con.history.state_vec();
    let (mut clipped, mut unclipped) = (false, false);
    let m = d.rows[0].mass_static.value + d.rows[0].mass_rot.value;
    let mut e_shadow = 0.0;
    let mut e_abs = 0.0;
    let dyn_brake_capability: Option<f64> = d.b.spec.consist.loco_vec.iter().map(|l| match &l.loco_type {
        PowertrainType::ConventionalLoco(c) => Some(c.edrv.pwr_out_max.value),
        PowertrainType::BatteryElectricLoco(b2) => Some(b2.edrv.pwr_out_max.value),
        _ => None,
    }).sum();
    for k in 1..d.rows.len() {
        let r = &d.rows[k];
        let p = &d.rows[k - 1];
        let mut bad = |ctx: &mut Ctx, clause: &str, msg: String| {
            ctx.violate(clause, &format!("C14:{clause}"), format!("[{}] step {k}: {msg}", d.what), json!({"row": row_json(r), "prev_row": row_json(p), "trace": {"t": time.get(k), "v": speed.get(k), "t_prev": time.get(k - 1), "v_prev": speed.get(k - 1)}, "case": case_json(d.b)}));
        };
        ctx.count("obs.rows");
        if r.time.value.to_bits() != time[k].to_bits() || r.speed.value.to_bits() != speed[k].to_bits() {
            bad(ctx, "follows_trace", format!("time/speed ({}, {}) != trace ({}, {})", r.time.value, r.speed.value, time[k], speed[k]));
        }
        let dt = time[k] - time[k - 1];
        let acc = m / (2.0 * dt) * (speed[k] * speed[k] - speed[k - 1] * speed[k - 1]);
        let acc_scale = m / (2.0 * dt) * (speed[k] * speed[k] + speed[k - 1] * speed[k - 1]);
        if !close(r.pwr_accel.value, acc, 1e-10, acc_scale) {
            bad(ctx, "pwr_accel", format!("pwr_accel {} != (m_static+m_rot)/(2dt)*(v^2-v_prev^2) = {acc}", r.pwr_accel.value));
        }
        let res_net = r.res_rolling.value + r.res_bearing.value + r.res_davis_b.value + r.res_aero.value + r.res_grade.value + r.res_curve.value;
        let pres = res_net * (speed[k] + speed[k - 1]) / 2.0;
        if !close(r.pwr_res.value, pres, 1e-10, res_net.abs() * speed[k].max(speed[k - 1])) {
            bad(ctx, "pwr_res", format!("pwr_res {} != res_net * mean speed = {pres}", r.pwr_res.value));
        }
        // clip values must come from what the consist published
        if k < crow.len() && k >= 1 {
            let c = &crow[k];
            let cprev = &crow[k - 1];
            let raw = r.pwr_accel.value + r.pwr_res.value;
            let lo = -cprev.pwr_dyn_brake_max.value.max(0.0);
            // the capability the consist publishes must be what its units' drivetrains are rated for
            if let Some(cap) = dyn_brake_capability {
                ctx.count("obs.published_dyn_brake_capability");
                if !close(cprev.pwr_dyn_brake_max.value, cap, 1e-12, 0.0) {
                    bad(ctx, "dyn_brake_capability", format!("the consist publishes a dynamic-braking capability of {} W, its units' drivetrains are rated for {cap} W in total", cprev.pwr_dyn_brake_max.value));
                }
            }
            let rate_a = (p.pwr_whl_out.value + c.pwr_rate_out_max.value * p.dt.value).max(0.0); // as implemented: previous step size
            let rate_b = (p.pwr_whl_out.value + c.pwr_rate_out_max.value * dt).max(0.0); // this step's size
            let cands = [raw.max(lo).min(c.pwr_out_max.value.min(rate_a)), raw.max(lo).min(c.pwr_out_max.value.min(rate_b)), raw.max(lo).min(c.pwr_out_max.value)];
            let scale = raw.abs().max(c.pwr_out_max.value.abs());
            if !cands.iter().any(|x| close(*x, r.pwr_whl_out.value, 1e-10, scale)) {
                bad(ctx, "wheel_power_clip", format!("pwr_whl_out {} is none of clip(inertia+resistance = {raw}) with published limits [{lo}, min({}, {rate_a} | {rate_b})]", r.pwr_whl_out.value, c.pwr_out_max.value));
            }
            if close(raw, r.pwr_whl_out.value, 1e-10, scale) {
                unclipped = true;
                ctx.count("obs.unclipped_steps");
            } else {
                clipped = true;
                ctx.count("obs.clipped_steps");
            }
        }
        e_shadow += r.pwr_whl_out.value * dt;
        e_abs += (r.pwr_whl_out.value * dt).abs();
        if !close(r.energy_whl_out.value, e_shadow, 1e-9, e_abs) {
            bad(ctx, "energy_uses_trace_dt", format!("energy_whl_out {} != sum of power x trace dt = {e_shadow}", r.energy_whl_out.value));
        }
        if !close(r.dt.value, dt, 1e-15, 0.0) {
            bad(ctx, "dt_is_trace_dt", format!("state.dt {} != trace dt {dt}", r.dt.value));
        }
    }
    (clipped, unclipped)
}

// ------------------------------------------------------------------ C19

pub struct TreeEntry {
    pub path: String,
    pub len: usize,
    pub i_col: Vec<usize>,
    pub state_i: usize,
    pub interval: Option<usize>,
}

pub fn loco_tree(prefix: &str, l: &Locomotive, out: &mut Vec<TreeEntry>) {
    out.push(TreeEntry { path: format!("{prefix}"), len: l.history.len(), i_col: l.history.i.clone(), state_i: l.state.i, interval: l.get_save_interval() });
    match &l.loco_type {
        PowertrainType::ConventionalLoco(c) => {
            out.push(TreeEntry { path: format!("{prefix}.fc"), len: c.fc.history.len(), i_col: c.fc.history.i.clone(), state_i: c.fc.state.i, interval: c.fc.save_interval });
            out.push(TreeEntry { path: format!("{prefix}.gen"), len: c.gen.history.len(), i_col: c.gen.history.i.clone(), state_i: c.gen.state.i, interval: c.gen.save_interval });
            out.push(TreeEntry { path: format!("{prefix}.edrv"), len: c.edrv.history.len(), i_col: c.edrv.history.i.clone(), state_i: c.edrv.state.i, interval: c.edrv.save_interval });
        }
        PowertrainType::BatteryElectricLoco(b) => {
            out.push(TreeEntry { path: format!("{prefix}.res"), len: b.res.history.len(), i_col: b.res.history.i.clone(), state_i: b.res.state.i, interval: b.res.save_interval });
            out.push(TreeEntry { path: format!("{prefix}.edrv"), len: b.edrv.history.len(), i_col: b.edrv.history.i.clone(), state_i: b.edrv.state.i, interval: b.edrv.save_interval });
        }
        PowertrainType::HybridLoco(h) => {
            out.push(TreeEntry { path: format!("{prefix}.fc"), len: h.fc.history.len(), i_col: h.fc.history.i.clone(), state_i: h.fc.state.i, interval: h.fc.save_interval });
            out.push(TreeEntry { path: format!("{prefix}.gen"), len: h.gen.history.len(), i_col: h.gen.history.i.clone(), state_i: h.gen.state.i, interval: h.gen.save_interval });
            out.push(TreeEntry { path: format!("{prefix}.res"), len: h.res.history.len(), i_col: h.res.history.i.clone(), state_i: h.res.state.i, interval: h.res.save_interval });
            out.push(TreeEntry { path: format!("{prefix}.edrv"), len: h.edrv.history.len(), i_col: h.edrv.history.i.clone(), state_i: h.edrv.state.i, interval: h.edrv.save_interval });
        }
        _ => {}
    }
}

pub fn consist_tree(prefix: &str, c: &Consist, out: &mut Vec<TreeEntry>) {
    out.push(TreeEntry { path: format!("{prefix}"), len: c.history.len(), i_col: c.history.i.clone(), state_i: c.state.i, interval: c.get_save_interval() });
    for (k, l) in c.loco_vec.iter().enumerate() {
        loco_tree(&format!("{prefix}.loco[{k}]"), l, out);
    }
}

/// `steps_done`: number of completed steps; `walked`: the sim's own walk() was used (initial save)
pub fn check_tree(ctx: &mut Ctx, what: &str, tree: &[TreeEntry], interval: Option<usize>, steps_done: usize, walked: bool, detail: Value) {
    if ctx.prop != "C19" {
        return;
    }
    ctx.count("obs.trees_checked");
    ctx.add("obs.histories_checked", tree.len() as u64);
    let want = match interval {
        None => 0,
        Some(n) if n == 0 => 0,
        Some(n) => steps_done / n + if walked && n == 1 { 1 } else { 0 },
    };
    let first = &tree[0];
    let mut bad = |ctx: &mut Ctx, clause: &str, msg: String| {
        ctx.violate(clause, &format!("C19:{clause}"), format!("[{what}] interval {interval:?}, {steps_done} completed steps: {msg}"),
            json!({"tree": tree.iter().map(|t| json!({"path": t.path, "len": t.len, "state_i": t.state_i, "interval": t.interval, "i_head": t.i_col.iter().take(5).collect::<Vec<_>>(), "i_tail": t.i_col.iter().rev().take(3).collect::<Vec<_>>()})).collect::<Vec<_>>(), "detail": detail}));
    };
    for t in tree {
        if t.interval != interval {
            bad(ctx, "interval_propagated", format!("{} has save_interval {:?}", t.path, t.interval));
        }
        if t.len != first.len {
            bad(ctx, "equal_lengths", format!("{} has {} rows, {} has {}", t.path, t.len, first.path, first.len));
        } else if t.i_col != first.i_col {
            bad(ctx, "rows_same_step", format!("{} and {} refer to different steps in some row", t.path, first.path));
        }
        if t.state_i != first.state_i {
            bad(ctx, "step_counters_equal", format!("{} state.i = {} but {} state.i = {}", t.path, t.state_i, first.path, first.state_i));
        }
        if interval.is_none() && t.len != 0 {
            bad(ctx, "disabled_stays_empty", format!("{} has {} rows with saving disabled", t.path, t.len));
        }
    }
    if first.len != want {
        bad(ctx, "row_count", format!("{} rows, expected {want} (= steps whose index is a multiple of the interval{})", first.len, if walked && interval == Some(1) { " + initial state" } else { "" }));
    }
    if first.state_i != steps_done + 1 {
        bad(ctx, "step_counter_value", format!("top-level step counter {} after {steps_done} completed steps", first.state_i));
    }
}

// ------------------------------------------------------------------ workloads

pub fn run_with_timeout<T: Send + 'static>(f: impl FnOnce() -> T + Send + 'static, secs: u64) -> Option<T> {
    let (tx, rx) = std::sync::mpsc::channel();
    std::thread::spawn(move || {
        let r = f();
        let _ = tx.send(r);
    });
    rx.recv_timeout(std::time::Duration::from_secs(secs)).ok()
}

fn consist_mass(c: &Consist) -> f64 {
    use altrios_core::traits::Mass;
    c.mass().ok().flatten().map(|m| m.value).unwrap_or(0.0)
}

/// set-speed run: C07, C11, C12, C14, C19 (and the speed profile clause of C02 via the builder)
pub fn set_speed_run(ctx: &mut Ctx, rng: &mut Rng, interval: Option<usize>, inject_negative: bool) {
    set_speed_run_opt(ctx, rng, interval, inject_negative, true)
}

/// `consistent_init = false`: the builder's default initial state (speed 0) is kept although the trace
/// may start rolling (the trace, not the initial state, defines the speeds of a set-speed run)
pub fn set_speed_run_opt(ctx: &mut Ctx, rng: &mut Rng, interval: Option<usize>, inject_negative: bool, consistent_init: bool) {
    let b = match build_case(rng, 400.0) {
        Some(b) => b,
        None => {
            ctx.count("gen.no_case");
            return;
        }
    };
    let tp = match b.spec.config.make_train_params() {
        Ok(t) => t,
        Err(_) => return,
    };
    // where the front starts: at the train's length (default), further along the route (30 %), or - on routes
    // with exactly representable lengths - at an even number of metres before the route end, to be driven to
    // the end exactly by a trace of small integer speeds (positions then hit segment boundaries and the
    // route end bit-exactly)
    let exact_route = (b.route_len * 2.0).fract() == 0.0 && b.route_len < 1.0e6;
    let exact_end = consistent_init && !inject_negative && exact_route && rng.chance(0.25) && b.route_len - b.spec.length > 30.0;
    let start_extra = if exact_end {
        let dmax = ((b.route_len - b.spec.length - 2.0).min(800.0) / 2.0).floor() * 2.0;
        let d = (rng.usize(5, (dmax / 2.0) as usize) * 2) as f64;
        Some(b.route_len - d - b.spec.length)
    } else if consistent_init && rng.chance(0.3) && b.route_len - b.spec.length > 60.0 {
        Some(rng.range(0.0, (b.route_len - b.spec.length - 50.0).min(5000.0)))
    } else {
        None
    };
    let start = b.spec.length + start_extra.unwrap_or(0.0);
    let dist = b.route_len - start - 5.0;
    let steps = rng.usize(20, if ctx.prop == "C19" { 300 } else { 900 });
    let (time, mut speed) = if exact_end {
        // 0 -> 2 -> 4 m/s, cruise at 4, 4 -> 2, cruise at 2 for the remainder, 2 -> 0: all displacements are integers
        let d = b.route_len - start;
        let r = d - 8.0;
        let (q4, rem) = ((r / 4.0).floor() as usize, (r % 4.0) as usize);
        let mut v = vec![0.0, 2.0, 4.0];
        v.extend(std::iter::repeat(4.0).take(q4));
        v.push(2.0);
        v.extend(std::iter::repeat(2.0).take(rem / 2));
        v.push(0.0);
        ctx.count("obs.traces_ending_exactly_at_the_route_end");
        ((0..v.len()).map(|k| k as f64).collect(), v)
    } else {
        gt::speed_trace(rng, dist, tp.speed_max.value.min(35.0), steps)
    };
    if start_extra.is_some() {
        ctx.count("obs.runs_starting_part_way_along_the_route");
    }
    // the initial train state must agree with the first trace entry (speed before the first step)
    let init = if consistent_init { Some(InitTrainState::new(Some(uc::S * time[0]), start_extra.map(|_| uc::M * start), Some(uc::MPS * speed[0]))) } else { None };
    if !consistent_init && speed[0] > 0.0 {
        obs(ctx, "C14", "obs.rolling_start_on_default_initial_state");
    }
    let builder = TrainSimBuilder::new("t".into(), b.spec.config.clone(), b.spec.consist.clone(), None, None, init);
    if time.len() < 3 {
        ctx.count("gen.trace_too_short");
        return;
    }
    let mut neg_at = None;
    if inject_negative {
        let j = rng.usize(1, time.len() - 1);
        speed[j] = -rng.range(0.01, 3.0);
        neg_at = Some(j);
    }
    let trace = SpeedTrace::new(time.clone(), speed.clone(), None);
    let via_setter = ctx.prop == "C19" && rng.chance(0.5);
    let build_interval = if via_setter { *rng.pick(&[None, Some(1), Some(2), Some(3), Some(5), Some(7)]) } else { interval };
    let parts = builder.make_set_speed_train_sim_and_parts(&b.net.links, &b.route, trace, build_interval);
    let (mut sim, _tp2, path, train_res, _fb) = match parts {
        Ok(p) => p,
        Err(e) => {
            ctx.count("obs.builder_err");
            ctx.rep.diag(json!({"case": ctx.case, "builder_err": format!("{e:#}").chars().take(200).collect::<String>()}));
            return;
        }
    };
    ctx.count("obs.set_speed_sims_built");
    if via_setter {
        if rng.chance(0.4) {
            sim.set_save_interval(*rng.pick(&[None, Some(1), Some(2), Some(4), Some(6)]));
        }
        sim.set_save_interval(interval);
        ctx.count("obs.set_speed_runs_with_interval_changed_through_the_setter");
    }
    // C02 through the builder: profile of the sim's own path
    if ctx.prop == "C02" || ctx.prop == "C13" {
        crate::mon::path::check_speed_profile(ctx, &b.net, &b.route, &tp, &path, "TrainSimBuilder::make_set_speed_train_sim");
        return;
    }
    if ctx.prop == "C07" && rng.chance(0.3) {
        // the resistance model assembled by hand through its public constructors on the path as extended, for the
        // train where it stands (the builder assembles it on an empty path and lets the first step catch up)
        use altrios_core::train::kind::{aerodynamic, bearing, davis_b, path_res, rolling};
        use altrios_core::train::method;
        if let Some(rc) = res_coeffs_from_json(&serde_json::to_value(&train_res).unwrap_or(json!(null))) {
            if let (Ok(g), Ok(c)) = (path_res::Strap::new(path.grades(), &sim.state), path_res::Strap::new(path.curves(), &sim.state)) {
                sim.train_res = TrainRes::Strap(method::Strap::new(
                    bearing::Basic::new(uc::N * rc.bearing),
                    rolling::Basic::new(uc::R * rc.rolling),
                    davis_b::Basic::new(uc::SPM * rc.davis_b),
                    aerodynamic::Basic::new(uc::M2 * rc.cd_area),
                    g,
                    c,
                ));
                ctx.count("obs.set_speed_runs_with_the_resistance_model_assembled_on_the_extended_path");
            }
        }
    }
    let state0 = sim.state;
    let r = panics::guard(AssertUnwindSafe(|| sim.walk()));
    let steps_done = sim.state.i - 1;
    let walked_ok = match &r {
        Ok(Ok(())) => true,
        _ => false,
    };
    match &r {
        Ok(Ok(())) => ctx.count("obs.set_speed_walk_ok"),
        Ok(Err(e)) => {
            ctx.count("obs.set_speed_walk_err");
            if neg_at.is_none() {
                ctx.rep.diag(json!({"case": ctx.case, "set_speed_walk_err": format!("{e:#}").chars().take(300).collect::<String>()}));
            }
        }
        Err(p) => {
            ctx.count("obs.set_speed_walk_panic");
            ctx.rep.diag(json!({"case": ctx.case, "set_speed_walk_panic": p.message, "at": p.location}));
        }
    }
    if let Some(j) = neg_at {
        obs(ctx, "C14", "obs.negative_speed_traces");
        if walked_ok {
            emit(ctx, "C14", "negative_speed_rejected", "C14:negative_speed_accepted", format!("trace with speed {} at index {j} was walked to completion", speed[j]), json!({"index": j, "case": case_json(&b)}));
        } else if steps_done + 1 != j {
            // must stop exactly at the offending step
            obs(ctx, "C14", "obs.negative_speed_rejected_elsewhere");
        }
    }
    // histories (interval 1 => row 0 is the initial state)
    let mut tree = vec![TreeEntry { path: "train".into(), len: sim.history.len(), i_col: sim.history.i.clone(), state_i: sim.state.i, interval: sim.get_save_interval() }];
    consist_tree("train.loco_con", &sim.loco_con, &mut tree);
    check_tree(ctx, "SetSpeedTrainSim::walk", &tree, interval, steps_done, true, json!({"ended_with_error": !walked_ok, "case": case_json(&b)}));
    if interval == Some(1) && sim.history.len() >= 2 {
        let rows = sim.history.state_vec();
        let res = match res_coeffs_from_json(&serde_json::to_value(&train_res).unwrap_or(json!(null))) {
            Some(r) => r,
            None => return,
        };
        let d = RunData { b: &b, what: "SetSpeedTrainSim::walk", rows, path: &path, res, consist_mass: consist_mass(&b.spec.consist) };
        let _ = state0;
        let (straddle, jump3) = check_c07(ctx, &d);
        let multi = if consistent_init { check_c12(ctx, &d) } else { false };
        let both = check_c11(ctx, &d, &sim.loco_con, &sim.state, None, None, walked_ok);
        let (cl, un) = check_c14(ctx, &d, &sim.loco_con, &time, &speed);
        let sig = mix(hash_f64s(&[b.route_len, b.spec.length, b.spec.towed_mass, time.len() as f64, speed.iter().sum::<f64>()]));
        let mixed = b.spec.kinds.iter().any(|k| *k == crate::gen::powertrain::Kind::Bel) && b.spec.kinds.iter().any(|k| *k == crate::gen::powertrain::Kind::Conv);
        let nt = match ctx.prop {
            "C07" => straddle,
            "C12" => multi || d.rows.len() > 50,
            "C11" => both && mixed,
            "C14" => cl && un,
            _ => false,
        };
        let _ = jump3;
        if nt {
            ctx.rep.nontrivial(sig);
        }
        if ctx.rep.samples.len() < 2 {
            ctx.rep.sample(json!({"run": "SetSpeedTrainSim::walk", "trace_len": time.len(), "trace_head": {"t": &time[..time.len().min(6)], "v": &speed[..speed.len().min(6)]}, "rows_checked": d.rows.len() - 1, "case": case_json(&b)}));
        }
    }
    if ctx.prop == "C19" {
        let comp = b.spec.kinds.iter().any(|k| *k == crate::gen::powertrain::Kind::Bel) && b.spec.kinds.iter().any(|k| *k == crate::gen::powertrain::Kind::Conv);
        if !matches!(interval, None | Some(1)) && comp {
            ctx.rep.nontrivial(mix(hash_f64s(&[interval.unwrap_or(0) as f64, steps_done as f64, b.spec.towed_mass, 1.0])));
        }
        ctx.rep.sample(json!({"run": "SetSpeedTrainSim::walk", "interval": interval, "completed_steps": steps_done, "ended_with_error": !walked_ok, "histories_in_tree": tree.len()}));
    }
}

#[derive(Clone, Copy, Debug, PartialEq)]
pub enum Extension {
    Whole,
    LinkByLink,
    Timed,
}

pub struct SltsOutcome {
    pub accepted: bool,
    pub ok: bool,
    pub steps: usize,
}

/// speed-limited run: C03, C07, C11, C12, C19
pub fn speed_limit_run(ctx: &mut Ctx, rng: &mut Rng, interval: Option<usize>, ext: Extension) {
    let phase = ctx.prop == "C03" && ext == Extension::Whole && rng.chance(0.35);
    if phase {
        ctx.count("obs.phase_scan_cases");
    }
    let b = match if phase { build_phase_case(rng) } else { build_case(rng, 600.0) } {
        Some(b) => b,
        None => {
            ctx.count("gen.no_case");
            return;
        }
    };
    let lm = gt::location_map(&b.net);
    let (o, dname) = if b.reverse { ("Br", "Ar") } else { ("A", "B") };
    // initial time and (inside the first segment) an initial front position further along than the train's length
    let first_len = b.net.links[b.route[0].idx()].length.value;
    let room = first_len - b.spec.length - 20.0;
    let init = if rng.chance(0.3) {
        let off = if room > 5.0 && rng.chance(0.5) {
            obs(ctx, "C12", "obs.speed_limited_runs_starting_part_way_into_the_first_segment");
            Some(uc::M * (b.spec.length + rng.range(1.0, room)))
        } else {
            None
        };
        Some(InitTrainState::new(Some(uc::S * rng.range(0.0, 5000.0)), off, None))
    } else {
        None
    };
    let builder = TrainSimBuilder::new("t".into(), b.spec.config.clone(), b.spec.consist.clone(), Some(o.into()), Some(dname.into()), init);
    let sim_days = *rng.pick(&[None, Some(1), Some(7), Some(365)]);
    let scenario_year = *rng.pick(&[None, Some(2025), Some(2040)]);
    // C19: half of the runs are built with another interval and brought to the wanted one through the top-level
    // setter, in one or two calls (None -> n, n -> m with m not a multiple of n, n -> None -> m, ...)
    let via_setter = ctx.prop == "C19" && rng.chance(0.5);
    let build_interval = if via_setter { *rng.pick(&[None, Some(1), Some(2), Some(3), Some(5), Some(7)]) } else { interval };
    let mut sim = match builder.make_speed_limit_train_sim(&lm, build_interval, sim_days, scenario_year) {
        Ok(s) => s,
        Err(e) => {
            ctx.count("obs.builder_err");
            ctx.rep.diag(json!({"case": ctx.case, "slts_builder_err": format!("{e:#}").chars().take(200).collect::<String>()}));
            return;
        }
    };
    let tp = match b.spec.config.make_train_params() {
        Ok(t) => t,
        Err(_) => return,
    };
    if via_setter {
        if rng.chance(0.4) {
            sim.set_save_interval(*rng.pick(&[None, Some(1), Some(2), Some(4), Some(6)]));
        }
        sim.set_save_interval(interval);
        ctx.count("obs.speed_limited_runs_with_interval_changed_through_the_setter");
        if rng.chance(0.5) {
            // a nested level is changed behind the top level's back (the consist's own public setter, as when a
            // consist configured elsewhere is put into the train), then the top-level setter is called again with
            // the value the top level already holds: it must reach every nested object all the same. Half of these
            // go through the batch-level setter of SpeedLimitTrainSimVec.
            let other = *rng.pick(&[None, Some(1usize), Some(2), Some(3), Some(5)]);
            sim.loco_con.set_save_interval(other);
            if rng.chance(0.5) {
                let mut v = SpeedLimitTrainSimVec(vec![sim]);
                v.set_save_interval(interval);
                sim = v.0.pop().unwrap();
                ctx.count("obs.interval_set_again_through_the_batch_setter_after_a_nested_change");
            } else {
                sim.set_save_interval(interval);
                ctx.count("obs.interval_set_again_through_the_train_setter_after_a_nested_change");
            }
        }
    }
    let train_res_json = serde_json::to_value(&sim.train_res).unwrap_or(json!(null));
    let what: &'static str = match ext {
        Extension::Whole => "SpeedLimitTrainSim::walk (whole path)",
        Extension::LinkByLink => "SpeedLimitTrainSim link-by-link extension",
        Extension::Timed => "SpeedLimitTrainSim::walk_timed_path",
    };
    obs(ctx, "C03", "obs.slts_attempts");
    // ---- drive
    let links = b.net.links.clone();
    let route = b.route.clone();
    let state0 = sim.state;
    let mut manual_rows: Vec<TrainState> = vec![state0];
    let mut walked = false;
    let result: Result<anyhow::Result<()>, panics::PanicInfo>;
    let mut accepted = true;
    match ext {
        Extension::Whole => {
            if let Err(e) = panics::guard(AssertUnwindSafe(|| sim.extend_path(&links, &route))).unwrap_or_else(|p| Err(anyhow::anyhow!("PANIC in extend_path: {} at {}", p.message, p.location))) {
                let m = format!("{e:#}");
                if m.starts_with("PANIC") {
                    emit(ctx, "C03", "no_panic", "C03:panic_in_extend_path", m.chars().take(300).collect(), json!({"case": case_json(&b)}));
                }
                obs(ctx, "C03", "obs.not_accepted(extend_path_err)");
                obs(ctx, "C03", &format!("obs.not_accepted.{}", classify_extend_err(&m)));
                if classify_extend_err(&m) == "other" && ctx.prop == "C03" {
                    ctx.rep.diag(json!({"case": ctx.case, "extend_err_other": m.chars().take(260).collect::<String>()}));
                }
                return;
            }
            check_backward_eval(ctx, rng, &sim, &b);
            // pre-flight on a clone with a step budget: the real walk() cannot be interrupted
            if !preflight_terminates(ctx, &sim, &b, what) {
                return;
            }
            walked = true;
            let r = run_with_timeout(
                move || {
                    let r = panics::guard(AssertUnwindSafe(|| sim.walk()));
                    (r, sim)
                },
                60,
            );
            match r {
                Some((r, s)) => {
                    result = r;
                    sim = s;
                }
                None => {
                    ctx.count("obs.walk_timeout");
                    ctx.rep.inconclusive_cases += 1;
                    ctx.rep.diag(json!({"case": ctx.case, "timeout": what}));
                    return;
                }
            }
        }
        Extension::LinkByLink => {
            // as SavedSim::update_movement does: extend when the front is within a look-ahead of the path end
            let look = *rng.pick(&[200.0, 1000.0, 8046.72]);
            let mut next = 0usize;
            let mut res: Result<anyhow::Result<()>, panics::PanicInfo> = Ok(Ok(()));
            let mut budget = STEP_BUDGET;
            'outer: loop {
                // extend while needed
                while next < route.len() && (next == 0 || sim.state.offset.value >= sim.offset_end().value - look) {
                    let r = panics::guard(AssertUnwindSafe(|| sim.extend_path(&links, &route[next..next + 1])));
                    next += 1;
                    match r {
                        Ok(Ok(())) => {}
                        Ok(Err(e)) => {
                            if next == 1 || sim.state.i == 1 {
                                accepted = false;
                            }
                            res = Ok(Err(e));
                            break 'outer;
                        }
                        Err(p) => {
                            res = Err(p);
                            break 'outer;
                        }
                    }
                }
                let end = sim.offset_end().value;
                let go = sim.state.offset.value < end - 1000.0 * 0.3048 || (sim.state.offset.value < end && sim.state.speed.value != 0.0);
                if !go {
                    if next >= route.len() {
                        break;
                    }
                    // stopped short of the current end with links still to add: add the next one
                    let r = panics::guard(AssertUnwindSafe(|| sim.extend_path(&links, &route[next..next + 1])));
                    next += 1;
                    match r {
                        Ok(Ok(())) => continue,
                        Ok(Err(e)) => {
                            res = Ok(Err(e));
                            break;
                        }
                        Err(p) => {
                            res = Err(p);
                            break;
                        }
                    }
                }
                match panics::guard(AssertUnwindSafe(|| sim.step())) {
                    Ok(Ok(())) => manual_rows.push(sim.state),
                    Ok(Err(e)) => {
                        res = Ok(Err(e));
                        break;
                    }
                    Err(p) => {
                        res = Err(p);
                        break;
                    }
                }
                budget -= 1;
                if budget == 0 {
                    obs(ctx, "C03", "obs.no_termination_within_budget");
                    let st = sim.state;
                    emit(ctx, "C03", "bounded_progress", &no_progress_sig(&st, sim.offset_end().value),
                        format!("[{what}] run did not end within {STEP_BUDGET} steps: front at {} of {} m, speed {}, target {}, limit {}", st.offset.value, sim.offset_end().value, st.speed.value, st.speed_target.value, st.speed_limit.value),
                        json!({"state": row_json(&st), "case": case_json(&b)}));
                    return;
                }
            }
            result = res;
        }
        Extension::Timed => {
            // free run first (clone) to obtain entry times, then delayed timed path through the real API
            let mut probe = sim.clone();
            if let Err(e) = probe.extend_path(&links, &route) {
                obs(ctx, "C03", "obs.not_accepted(extend_path_err)");
                obs(ctx, "C03", &format!("obs.not_accepted.{}", classify_extend_err(&format!("{e:#}"))));
                return;
            }
            if !preflight_terminates(ctx, &probe, &b, "SpeedLimitTrainSim::walk (free run used to time the path)") {
                return;
            }
            let pr = run_with_timeout(
                move || {
                    let r = panics::guard(AssertUnwindSafe(|| probe.walk()));
                    (r, probe)
                },
                60,
            );
            let probe = match pr {
                Some((Ok(Ok(())), p)) => p,
                _ => {
                    ctx.count("obs.timed_probe_failed");
                    return;
                }
            };
            let prow = probe.history.state_vec();
            let mut bounds = vec![0.0];
            for l in &route {
                bounds.push(bounds.last().unwrap() + links[l.idx()].length.value);
            }
            let mut tpath = vec![];
            let mut delay = 0.0;
            for (i, l) in route.iter().enumerate() {
                let t_enter = prow.iter().find(|r| r.offset.value >= bounds[i]).map(|r| r.time.value).unwrap_or(state0.time.value);
                if rng.chance(0.3) {
                    delay += rng.range(0.0, 600.0);
                }
                tpath.push(LinkIdxTime::new(*l, uc::S * (t_enter + delay)));
            }
            if !preflight_timed(ctx, &sim, &links, &tpath, &b) {
                return;
            }
            walked = true;
            let net2 = links.clone();
            let r = run_with_timeout(
                move || {
                    let r = panics::guard(AssertUnwindSafe(|| sim.walk_timed_path(&net2, &tpath)));
                    (r, sim)
                },
                60,
            );
            match r {
                Some((r, s)) => {
                    result = r;
                    sim = s;
                }
                None => {
                    ctx.count("obs.walk_timeout");
                    ctx.rep.inconclusive_cases += 1;
                    ctx.rep.diag(json!({"case": ctx.case, "timeout": what}));
                    return;
                }
            }
        }
    }
    if !accepted {
        obs(ctx, "C03", "obs.not_accepted(extend_path_err)");
        return;
    }
    obs(ctx, "C03", "obs.slts_accepted");
    let steps_done = sim.state.i - 1;
    let rows: Vec<TrainState> = if walked && interval == Some(1) { sim.history.state_vec() } else { manual_rows };
    let covers = ref_covers(&b.net.links, &b.route, &tp).unwrap_or_default();
    let vmax = tp.speed_max.value;
    // ---- C03 clauses
    if ctx.prop == "C03" {
        let end = sim.offset_end().value;
        match &result {
            Err(p) => {
                // exact signature of the recorded finding: the train is inside a braking curve (target below the
                // limit in force), decelerating, and overshoots the stepped curve by less than about one curve step
                let parse = |key: &str| -> Option<f64> { p.message.split(key).nth(1).and_then(|r| r.trim_start_matches('=').split_whitespace().next()).and_then(|x| x.parse::<f64>().ok()) };
                let over = match (parse("speed="), parse("speed_limit=")) {
                    (Some(v), Some(l)) => v - l,
                    _ => f64::INFINITY,
                };
                let tracking = rows.len() >= 2 && {
                    let (r, q) = (&rows[rows.len() - 1], &rows[rows.len() - 2]);
                    r.speed_target.value < r.speed_limit.value * (1.0 - 1e-9) && r.speed.value < q.speed.value && over <= 1.5
                };
                // second recorded shape of the same mechanism: the train runs exactly at the target it was given (the end
                // value of one braking curve, or the zone limit that curve led into; speed == target <= limit in force,
                // not accelerating) and one step of travel carries it past the first two points of the next curve, whose
                // first decrement lies closer than that step; the violated limit is a point of that next curve (below
                // the target the train was rightly holding)
                let entering = rows.len() >= 2 && {
                    let (r, q) = (&rows[rows.len() - 1], &rows[rows.len() - 2]);
                    let violated = parse("speed_limit=").unwrap_or(f64::INFINITY);
                    r.speed.value == r.speed_target.value && q.speed.value >= r.speed.value && r.speed_target.value <= r.speed_limit.value && violated < r.speed_target.value && over <= 1.5
                };
                let kind = if p.message.contains("Speed limit violated") { if tracking { "speed_limit_assert:tracking_braking_curve" } else if entering { "speed_limit_assert:next_braking_curve_entered_at_the_held_target" } else { "speed_limit_assert" } } else { "other" };
                let xlast = rows.last().map(|r| r.offset.value).unwrap_or(0.0);
                let bps = serde_json::to_value(&sim.braking_points).ok().and_then(|v| v.get("points").cloned()).and_then(|p| p.as_array().cloned()).unwrap_or_default();
                let near: Vec<Value> = bps.into_iter().filter(|p| p.get("offset").and_then(|o| o.as_f64()).map(|o| (o - xlast).abs() < 250.0).unwrap_or(false)).collect();
                let sp: Vec<Value> = sim.path_tpc.speed_points().iter().map(|s| json!([s.offset.value, s.speed_limit.value])).collect();
                ctx.violate("no_panic", &format!("C03:panic:{kind}"), format!("[{what}] panic after {steps_done} steps: {} at {}", p.message.chars().take(200).collect::<String>(), p.location),
                    json!({"last_rows": rows.iter().rev().take(4).map(row_json).collect::<Vec<_>>(), "braking_points_near": near, "speed_points": sp, "case": case_json(&b)}));
            }
            Ok(Err(e)) => {
                ctx.count("obs.run_ended_with_err");
                let m = format!("{e:#}");
                ctx.count(&format!("obs.err.{}", if m.contains("sufficient power") { "insufficient_power" } else if m.contains("Insufficient braking") { "insufficient_braking" } else if m.contains("larger than last slice offset") { "past_path_end" } else if m.contains("reverse direction smaller") { "before_path_start" } else { "other" }));
                if !(m.contains("sufficient power") || m.contains("Insufficient braking") || m.contains("larger than last slice offset") || m.contains("reverse direction smaller")) {
                    ctx.rep.diag(json!({"case": ctx.case, "run_err_other": m.chars().take(260).collect::<String>()}));
                }
                if m.trim().is_empty() {
                    ctx.violate("descriptive_error", "C03:empty_error", format!("[{what}] run ended with an empty error message"), json!({"case": case_json(&b)}));
                }
            }
            Ok(Ok(())) => {
                ctx.count("obs.run_ok");
                let last = sim.state;
                ctx.count("obs.final_stop_checked");
                // third recorded shape of the stepped-curve defect: the train is tracking the final stop curve (target 0,
                // speed below the curve's limit in force, crawling at <= 1.5 m/s) and its last step carries it over the end
                // of its path by less than that step's travel; walk() then returns Ok although the train is still moving
                let overrun = last.offset.value - end;
                let crawl_over_end = last.speed_target.value == 0.0 && last.speed.value > 0.0 && last.speed.value <= 1.5 && last.speed.value < last.speed_limit.value && overrun > 0.0 && overrun <= 1.5 * last.dt.value;
                if last.speed.value != 0.0 {
                    ctx.violate("stops_at_end", if crawl_over_end { "C03:final_speed_nonzero:crawls_over_the_end_while_tracking_the_stop_curve" } else { "C03:final_speed_nonzero" }, format!("[{what}] run returned Ok with final speed {}", last.speed.value), json!({"final": row_json(&last), "path_end": end, "case": case_json(&b)}));
                }
                if last.offset.value > end * (1.0 + 1e-12) + 1e-6 || last.offset.value < end - 1000.0 * 0.3048 - 1e-6 {
                    ctx.violate("stops_inside_window", if crawl_over_end { "C03:final_offset_outside_window:crawls_over_the_end_while_tracking_the_stop_curve" } else { "C03:final_offset_outside_window" }, format!("[{what}] final front position {} outside [end - 1000 ft, end] with end = {end}", last.offset.value), json!({"final": row_json(&last), "path_end": end, "case": case_json(&b)}));
                }
            }
        }
        let mut braked = false;
        let mut crossed = 0;
        let lp = sim.path_tpc.link_points();
        for k in 1..rows.len() {
            let r = &rows[k];
            ctx.count("obs.rows");
            if r.speed.value < 0.0 {
                ctx.violate("never_reverses", "C03:negative_speed", format!("[{what}] step {k}: speed {}", r.speed.value), json!({"row": row_json(r), "case": case_json(&b)}));
            }
            if r.speed_target.value > r.speed_limit.value * (1.0 + 1e-12) {
                let pat = if r.speed_limit.value < ref_limit(&covers, vmax, rows[k - 1].offset.value) * (1.0 - 1e-9) { "inside_braking_curve" } else { "at_posted_limit" };
                ctx.violate("target_le_limit", &format!("C03:target_above_limit:{pat}"), format!("[{what}] step {k}: speed target {} > limit in force {}", r.speed_target.value, r.speed_limit.value), json!({"row": row_json(r), "prev_row": row_json(&rows[k - 1]), "case": case_json(&b)}));
            }
            let posted = ref_limit(&covers, vmax, r.offset.value);
            if r.speed.value > posted * (1.0 + 1e-9) + 1e-9 {
                let bps = serde_json::to_value(&sim.braking_points).ok().and_then(|v| v.get("points").cloned()).and_then(|p| p.as_array().cloned()).unwrap_or_default();
                let near: Vec<Value> = bps.into_iter().filter(|p| p.get("offset").and_then(|o| o.as_f64()).map(|o| (o - r.offset.value).abs() < 400.0).unwrap_or(false)).collect();
                let q = &rows[k - 1];
                let tracking = r.speed_target.value < r.speed_limit.value * (1.0 - 1e-9) && q.speed_target.value < q.speed_limit.value * (1.0 - 1e-9) && r.speed.value < q.speed.value && r.speed.value - posted <= 1.5;
                ctx.violate("speed_le_posted", if tracking { "C03:overspeed_vs_posted:tracking_braking_curve" } else { "C03:overspeed_vs_posted" }, format!("[{what}] step {k}: speed {} > posted limit {posted} at front position {}", r.speed.value, r.offset.value), json!({"row": row_json(r), "prev_row": row_json(&rows[k - 1]), "braking_points_near": near, "case": case_json(&b)}));
            }
            if k + 1 < rows.len() && r.speed.value > rows[k + 1].speed_limit.value * (1.0 + 1e-12) + 1e-12 {
                ctx.violate("speed_le_limit_in_force", "C03:overspeed_vs_limit_in_force", format!("[{what}] step {k}: speed {} > limit in force at its position {}", r.speed.value, rows[k + 1].speed_limit.value), json!({"row": row_json(r), "next_row": row_json(&rows[k + 1]), "case": case_json(&b)}));
            }
            if r.speed_limit.value < posted * (1.0 - 1e-9) {
                braked = true;
            }
            for i in 1..lp.len() {
                if rows[k - 1].offset.value < lp[i].offset.value && lp[i].offset.value <= r.offset.value {
                    crossed += 1;
                }
            }
        }
        if crossed >= 3 && braked {
            ctx.rep.nontrivial(mix(hash_f64s(&[b.route_len, b.spec.length, b.spec.towed_mass, rows.len() as f64, ext as usize as f64])));
        }
        if ctx.rep.samples.len() < 3 {
            ctx.rep.sample(json!({"run": what, "steps": steps_done, "outcome": match &result { Ok(Ok(())) => "Ok".to_string(), Ok(Err(e)) => format!("Err: {}", format!("{e:#}").chars().take(120).collect::<String>()), Err(p) => format!("panic: {}", p.message) },
                "link_boundaries_crossed": crossed, "braked_for_restriction": braked, "case": case_json(&b)}));
        }
    }
    // ---- shared history oracles
    let ok = matches!(result, Ok(Ok(())));
    let mut tree = vec![TreeEntry { path: "train".into(), len: sim.history.len(), i_col: sim.history.i.clone(), state_i: sim.state.i, interval: sim.get_save_interval() }];
    tree.push(TreeEntry { path: "train.fric_brake".into(), len: sim.fric_brake.history.len(), i_col: sim.fric_brake.history.i.clone(), state_i: sim.fric_brake.state.i, interval: sim.fric_brake.save_interval });
    consist_tree("train.loco_con", &sim.loco_con, &mut tree);
    check_tree(ctx, what, &tree, interval, steps_done, walked, json!({"ended_ok": ok, "case": case_json(&b)}));
    if ctx.prop == "C19" {
        let comp = b.spec.kinds.iter().any(|k| *k == crate::gen::powertrain::Kind::Bel) && b.spec.kinds.iter().any(|k| *k == crate::gen::powertrain::Kind::Conv);
        if !matches!(interval, None | Some(1)) && comp {
            ctx.rep.nontrivial(mix(hash_f64s(&[interval.unwrap_or(0) as f64, steps_done as f64, b.spec.towed_mass, 2.0 + ext as usize as f64])));
        }
        ctx.rep.sample(json!({"run": what, "interval": interval, "completed_steps": steps_done, "ended_ok": ok, "histories_in_tree": tree.len()}));
    }
    if rows.len() >= 2 && (interval == Some(1) || !walked) {
        let res = match res_coeffs_from_json(&train_res_json) {
            Some(r) => r,
            None => return,
        };
        let path = sim.path_tpc.clone();
        let d = RunData { b: &b, what, rows, path: &path, res, consist_mass: consist_mass(&b.spec.consist) };
        let (straddle, _j) = check_c07(ctx, &d);
        let multi = check_c12(ctx, &d);
        let getters = Some((sim.get_kilometers(true), sim.get_megagram_kilometers(true), sim.get_energy_fuel(true).value, sim.get_net_energy_res(true).value, 0.0));
        let both = if interval == Some(1) { check_c11(ctx, &d, &sim.loco_con, &sim.state, getters, sim_days, ok) } else { false };
        if ctx.prop == "C11" && ok {
            check_c11_trip_vector(ctx, what, &sim, sim_days, &b);
        }
        let mixed = b.spec.kinds.iter().any(|k| *k == crate::gen::powertrain::Kind::Bel) && b.spec.kinds.iter().any(|k| *k == crate::gen::powertrain::Kind::Conv);
        let nt = match ctx.prop {
            "C07" => straddle,
            "C12" => multi || d.rows.len() > 50,
            "C11" => both && mixed,
            _ => false,
        };
        if nt {
            ctx.rep.nontrivial(mix(hash_f64s(&[b.route_len, b.spec.length, b.spec.towed_mass, d.rows.len() as f64, 9.0 + ext as usize as f64])));
        }
        if ctx.rep.samples.len() < 2 && ctx.prop != "C03" && ctx.prop != "C19" {
            ctx.rep.sample(json!({"run": what, "rows_checked": d.rows.len() - 1, "ended_ok": ok, "case": case_json(&b)}));
        }
    }
}

/// bounded emulation of walk_timed_path's control flow on a clone (public extend_path/step only)
fn preflight_timed(ctx: &mut Ctx, sim: &SpeedLimitTrainSim, links: &[altrios_core::track::Link], tp: &[LinkIdxTime], b: &Built) -> bool {
    let mut p = sim.clone();
    p.set_save_interval(None);
    let mut n = 0usize;
    let r = panics::guard(AssertUnwindSafe(|| -> anyhow::Result<bool> {
        let mut idx_prev = 0;
        while idx_prev != tp.len() - 1 {
            let mut idx_next = idx_prev + 1;
            while idx_next + 1 < tp.len() - 1 && tp[idx_next].time < p.state.time {
                idx_next += 1;
            }
            let time_extend = tp[idx_next - 1].time;
            p.extend_path(links, &tp[idx_prev..idx_next].iter().map(|x| x.link_idx).collect::<Vec<_>>())?;
            idx_prev = idx_next;
            while p.state.time < time_extend {
                p.step()?;
                n += 1;
                if n >= STEP_BUDGET {
                    return Ok(false);
                }
            }
        }
        loop {
            let end = p.offset_end().value;
            let go = p.state.offset.value < end - 1000.0 * 0.3048 || (p.state.offset.value < end && p.state.speed.value != 0.0);
            if !go {
                return Ok(true);
            }
            p.step()?;
            n += 1;
            if n >= STEP_BUDGET {
                return Ok(false);
            }
        }
    }));
    match r {
        Ok(Ok(false)) => {
            obs(ctx, "C03", "obs.no_termination_within_budget");
            let st = p.state;
            emit(ctx, "C03", "bounded_progress", &no_progress_sig(&st, p.offset_end().value),
                format!("[SpeedLimitTrainSim::walk_timed_path] run did not end within {STEP_BUDGET} steps: front at {} of {} m, speed {}, target {}, limit {}", st.offset.value, p.offset_end().value, st.speed.value, st.speed_target.value, st.speed_limit.value),
                json!({"state": row_json(&st), "timed_path": tp.iter().map(|x| json!([x.link_idx.idx(), x.time.value])).collect::<Vec<_>>(), "case": case_json(b)}));
            false
        }
        _ => true,
    }
}

fn classify_extend_err(m: &str) -> &'static str {
    if m.contains("reverse direction smaller") {
        "braking_curve_reaches_before_path_start"
    } else if m.contains("fric_brake.force_max + train_state.res_net()") {
        "insufficient_braking_force"
    } else if m.contains("not found in `speed_sets") {
        "no_speed_set_for_train_type"
    } else {
        "other"
    }
}

pub const STEP_BUDGET: usize = 60_000;

/// exact signature of a run that never ends: the recorded finding is "stopped (speed 0) with speed
/// target 0 under a positive limit (i.e. inside the braking curve of the final stop) more than
/// 1000 ft before the end of the path"
fn no_progress_sig(st: &TrainState, end: f64) -> String {
    if st.speed.value == 0.0 && st.speed_target.value == 0.0 && st.speed_limit.value > 0.0 && st.offset.value < end - 1000.0 * 0.3048 {
        "C03:no_progress:stopped_short_inside_final_braking_curve".to_string()
    } else if st.speed.value == 0.0 {
        "C03:no_progress:stalled_at_zero_speed".to_string()
    } else {
        "C03:no_progress:moving".to_string()
    }
}

/// drive a clone (no histories) like walk_internal with a step budget; false => the run does not
/// terminate within the budget (reported under C03 as bounded-progress failure) or the case is unusable
fn preflight_terminates(ctx: &mut Ctx, sim: &SpeedLimitTrainSim, b: &Built, what: &str) -> bool {
    let mut p = sim.clone();
    p.set_save_interval(None);
    let mut n = 0usize;
    let r = panics::guard(AssertUnwindSafe(|| -> anyhow::Result<bool> {
        loop {
            let end = p.offset_end().value;
            let go = p.state.offset.value < end - 1000.0 * 0.3048 || (p.state.offset.value < end && p.state.speed.value != 0.0);
            if !go {
                return Ok(true);
            }
            p.step()?;
            n += 1;
            if n >= STEP_BUDGET {
                return Ok(false);
            }
        }
    }));
    match r {
        Ok(Ok(false)) => {
            obs(ctx, "C03", "obs.no_termination_within_budget");
            let st = p.state;
            emit(ctx, "C03", "bounded_progress", &no_progress_sig(&st, p.offset_end().value),
                format!("[{what}] run did not end within {STEP_BUDGET} steps: front at {} of {} m, speed {}, target {}, limit {}", st.offset.value, p.offset_end().value, st.speed.value, st.speed_target.value, st.speed_limit.value),
                json!({"state": row_json(&st), "case": case_json(b)}));
            false
        }
        _ => true, // Ok(true), Err or panic: the real run reproduces it in bounded time
    }
}

/// C07, backward evaluation: drive ResMethod::update_res on clones exactly as BrakingPoints::recalc
/// does (Dir::Unk at the end of the path, then decreasing offsets with Dir::Bwd) and compare every call
pub fn check_backward_eval(ctx: &mut Ctx, rng: &mut Rng, sim: &SpeedLimitTrainSim, b: &Built) {
    use altrios_core::lin_search_hint::Dir;
    use altrios_core::train::ResMethod;
    if ctx.prop != "C07" {
        return;
    }
    let path = &sim.path_tpc;
    let grades = path.grades();
    let curves = path.curves();
    let mut st = sim.state;
    let mut tr = sim.train_res.clone();
    let l = st.length.value;
    let end = path.offset_end().value;
    let begin = path.offset_begin().value;
    st.offset = uc::M * end;
    st.speed = uc::MPS * 0.0;
    let mut dir = Dir::Unk;
    let emax = grades.iter().map(|g| g.res_net.value.abs()).fold(1.0, f64::max);
    let cmax = curves.iter().map(|g| g.res_net.value.abs()).fold(1e-9, f64::max);
    let mut calls = 0;
    loop {
        if tr.update_res(&mut st, path, &dir).is_err() {
            break;
        }
        calls += 1;
        ctx.count("obs.backward_eval_calls");
        let x = st.offset.value;
        let xb = x - l;
        let w = st.weight_static.value;
        let g_ref = w * (cum(grades, x) - cum(grades, xb)) / l;
        let c_ref = w * (cum(curves, x) - cum(curves, xb)) / l;
        let gtol = w * (1e-12 * emax * 8.0 / l) + 1e-9 * g_ref.abs();
        let ctol = w * (1e-12 * cmax * 8.0 / l) + 1e-9 * c_ref.abs();
        let mut bad = |ctx: &mut Ctx, clause: &str, got: f64, want: String| {
            ctx.violate(clause, &format!("C07:backward:{clause}"), format!("[backward evaluation as in braking-curve construction, call {calls}] {clause} = {got} but definition gives {want} (front x={x}, rear x={xb})"), json!({"case": case_json(b)}));
        };
        if (st.res_grade.value - g_ref).abs() > gtol {
            bad(ctx, "res_grade", st.res_grade.value, format!("{g_ref}"));
        }
        if (st.res_curve.value - c_ref).abs() > ctol {
            bad(ctx, "res_curve", st.res_curve.value, format!("{c_ref}"));
        }
        if !slopes(grades, x).iter().any(|s| close(*s, st.grade_front.value, 1e-12, 0.0)) {
            bad(ctx, "grade_front", st.grade_front.value, format!("{:?}", slopes(grades, x)));
        }
        if !slopes(grades, xb).iter().any(|s| close(*s, st.grade_back.value, 1e-12, 0.0)) {
            bad(ctx, "grade_back", st.grade_back.value, format!("{:?}", slopes(grades, xb)));
        }
        // next call: further back, by a step like one time step of travel
        let step = rng.lrange(0.3, 60.0);
        if x - step - l < begin || calls > 4000 {
            break;
        }
        st.offset = uc::M * (x - step);
        st.speed = uc::MPS * rng.range(0.0, 30.0);
        dir = Dir::Bwd;
    }
}

fn pick_ext(rng: &mut Rng) -> Extension {
    *rng.pick(&[Extension::Whole, Extension::Whole, Extension::LinkByLink, Extension::Timed])
}

pub fn run_c03(ctx: &mut Ctx, rng: &mut Rng, _t: bool) {
    let e = pick_ext(rng);
    speed_limit_run(ctx, rng, Some(1), e)
}
pub fn run_c07(ctx: &mut Ctx, rng: &mut Rng, _t: bool) {
    if rng.chance(0.5) {
        set_speed_run(ctx, rng, Some(1), false)
    } else {
        let e = pick_ext(rng);
        speed_limit_run(ctx, rng, Some(1), e)
    }
}
pub fn run_c11(ctx: &mut Ctx, rng: &mut Rng, _t: bool) {
    if rng.chance(0.5) {
        set_speed_run(ctx, rng, Some(1), false)
    } else {
        let e = *rng.pick(&[Extension::Whole, Extension::Timed]);
        speed_limit_run(ctx, rng, Some(1), e)
    }
}
pub fn run_c12(ctx: &mut Ctx, rng: &mut Rng, _t: bool) {
    run_c07(ctx, rng, _t)
}
pub fn run_c14(ctx: &mut Ctx, rng: &mut Rng, _t: bool) {
    let neg = rng.chance(0.15);
    let consistent = rng.chance(0.65);
    set_speed_run_opt(ctx, rng, Some(1), neg, consistent)
}
