//! One entry per property: id, case runner, sizes per tier, non-triviality rule, assumptions.
use crate::report::Ctx;
use crate::rng::Rng;

pub mod determinism;
pub mod dispatch;
pub mod hist;
pub mod mass;
pub mod netval;
pub mod path;
pub mod powertrain;
pub mod serde_rt;
pub mod train;

pub struct Spec {
    pub id: &'static str,
    pub run: fn(&mut Ctx, &mut Rng, bool),
    pub cases_quick: u64,
    pub cases_thorough: u64,
    pub rule: &'static str,
    pub assumptions: &'static [&'static str],
}

const PT_ASSUME: &[&str] = &[
    "component maps / ratings / SOC windows drawn from the generator domain of DESIGN.md section 3 (plus the shipped defaults)",
    "time step dt in [0.05 s, min(10 s, 0.9*w*eta_min*E/P)] for battery units (discrete SOC derating ramp is contractive only below that bound)",
    "units driven exactly like LocomotiveSimulation::step / ConsistSimulation::step: set_pwr_aux -> set_cur_pwr_max_out -> solve_energy_consumption -> save_state -> step; a rejected step is rolled back and another demand is tried",
    "single-unit braking demands are bounded by the drivetrain rating (full dynamic braking)",
    "hybrid and dummy locomotives, GoldenSectionSearch and FrontAndBack policies are outside the quantifier (todo!() in the code)",
];

const PATH_ASSUME: &[&str] = &[
    "networks from the generator family of DESIGN.md section 3, each accepted by the crate's own validation (rejected draws are counted)",
    "positive restriction speeds only (negative speeds are accepted by validation but undocumented)",
    "restrictions ending past their link's end and zero-length restrictions are flagged sub-domains (low probability)",
    "|grade| <= 2.5 %, link lengths 30 m - 30 km, train length 50 m - 3 km",
];

const TRAIN_ASSUME: &[&str] = &[
    "networks/trains from the generator family of DESIGN.md section 3: 2..8 gaps, links 30 m - 6 km, |grade| <= 1.8 %, trains 3-150 cars that fit on the route, consist sized for weight and grade",
    "rail vehicles: the six shipped rolling-stock files and perturbed copies",
    "a run counts as accepted when the builder and the first extend_path returned Ok",
];

const DISP_ASSUME: &[&str] = &[
    "estimated-time construction must succeed for a train to take part (routes shorter than the 5-mile look-ahead, braking curves reaching before the path start etc. are counted as rejected draws)",
    "networks: generator family of DESIGN.md section 3 restricted to 5..45 gaps of 0.4-6 km (routes 10-160 km), |grade| <= 0.8 %, at most 2 restrictions per set, every physical segment with its flip",
    "run_dispatch's configured constants: headway 8 min, search distance 30 mi, fixed distance 10 mi",
];

pub fn spec(id: &str) -> Option<Spec> {
    Some(match id {
        "C01" => Spec {
            id: "C01",
            run: powertrain::run_c01,
            cases_quick: 2400,
            cases_thorough: 150000,
            rule: "case = one generated unit or consist (1..8 units, Proportional/RESGreedy) driven for 100-2000 steps by the online adversary (demands chosen after reading the limits just published); every accepted step is checked against every ledger identity and every prefix against the shadow ledger. Non-trivial = run with accepted steps of both signs (and, for single units, at least one accepted step within 1% of the published traction limit); distinct = hash of the generated parameters and the step-count profile",
            assumptions: PT_ASSUME,
        },
        "C08" => Spec {
            id: "C08",
            run: powertrain::run_c08,
            cases_quick: 2400,
            cases_thorough: 150000,
            rule: "same executions as C01's generator (own seed stream); every accepted step checked for loss >= 0, eta in (0,1], out <= in per direction, monotone cumulative energies, dynamic braking only under braking demand, engine-off => no fuel and no aux. Non-trivial = run with at least one regenerating step or one engine-off step; distinct = hash of generated parameters and step profile",
            assumptions: PT_ASSUME,
        },
        "C09" => Spec {
            id: "C09",
            run: powertrain::run_c09,
            cases_quick: 2400,
            cases_thorough: 150000,
            rule: "online adversary sits at/around every limit published by set_cur_pwr_max_out (x(1+d), d in {0,+-1e-9,+-1e-4,+-2e-3,+-1e-2,+-0.5}) for long holds; accepted steps are checked against ratings, published transient limits, ramp rate and SOC window; rejected steps are counted per rejecting check. Non-trivial = run with >=1 accepted step within 1% of the published limit and >=1 rejected step; distinct = hash of parameters and step profile",
            assumptions: PT_ASSUME,
        },
        "C10" => Spec {
            id: "C10",
            run: powertrain::run_c10,
            cases_quick: 2400,
            cases_thorough: 150000,
            rule: "case = generated consist of 1..8 conventional/battery units in any order, ratings differing up to 10x, SOC from empty to full, Proportional or RESGreedy, 100-1000 adversarial steps between full dynamic braking and full traction incl. exactly at the battery-first switch point; every accepted step checked for sum conservation, per-unit limits, sign agreement, regen only on battery units within published regen limit, battery-first residual. Non-trivial = mixed consist run with >=1 step with non-zero traction deficit or regen deficit; distinct = hash of parameters and step profile",
            assumptions: PT_ASSUME,
        },
        "C02" => Spec {
            id: "C02",
            run: path::run_speed,
            cases_quick: 12000,
            cases_thorough: 2000000,
            rule: "case = generated valid network (1..9 gaps, sidings, flips, permuted indices; 1..6 restrictions per set in controlled relations: nested, overlapping, abutting, equal start/end, enclosing; head-end and tail-end sets; typed speed_sets or speed_set; speed_params gates) x 4 (train, route) pairs x every extension schedule (all 2^(n-1) compositions for short routes, sampled above); enforced(x) read from PathTpc::speed_points() is compared with the reference min(train max, covering posted restrictions) built from the network at every breakpoint of either function and every midpoint (exact for piecewise-constant functions). Non-trivial = route with >=2 non-disjoint active restrictions on one link or a tail-end restriction crossing a link boundary; distinct = hash of route geometry, restrictions and train",
            assumptions: PATH_ASSUME,
        },
        "C13" => Spec {
            id: "C13",
            run: path::run_speed,
            cases_quick: 12000,
            cases_thorough: 2000000,
            rule: "same generator and reference as C02; oracle is equality enforced(x) == min(train max, covering restrictions) at every breakpoint and midpoint plus canonical form (strictly increasing offsets, no equal-valued neighbours; zero-length restrictions are a flagged sub-domain where only sortedness is required). Non-trivial/distinct as C02",
            assumptions: PATH_ASSUME,
        },
        "C06" => Spec {
            id: "C06",
            run: path::run_geometry,
            cases_quick: 10000,
            cases_thorough: 1500000,
            rule: "case = generated valid network x 3 (train, route) pairs x every extension schedule; link boundaries, elevation (all breakpoints + midpoints), grade and curve coefficients (independent atan2 formulation), cumulative curve resistance, catenary shifts and count bookkeeping are compared with a reference walk over the route's own points; paths from different schedules are compared with PartialEq; one spliced non-contiguous route per case must be rejected with Err. Non-trivial = route of >=3 links with a link without headings, with wrap-around headings or with catenary; distinct = hash of route geometry",
            assumptions: PATH_ASSUME,
        },
        "C16" => Spec {
            id: "C16",
            run: netval::run_c16,
            cases_quick: 160,
            cases_thorough: 6000,
            rule: "case = one generated consistent network (1..6 gaps, sidings, flips, lockouts, typed/untyped speed sets, catenary). (a) it must be accepted by [Link]::validate, Network::from_json, from_yaml and from_file; (b) EVERY single-fault mutation of it is enumerated - each listed rule broken at every link (dummy entry, idx=position, flip mutual/self, next/prev/alt reciprocity, alt without primary, coincident switch points, elevation/heading profile start/end/sorted/duplicate/single, speed section start>end/duplicate/unsorted, catenary overlap/start>end/unsorted/past the link end, length <=0 / NaN / inf, NaN/negative numeric fields, references = len, len+1, u32::MAX) - and must yield an error value on every load path, never a panic; (c) the network rewritten in the legacy layout must load equal. One evaluation = one valid network or one faulty variant of it; distinct = (rule, content of the faulty network); also loaded through the legacy-layout file path",
            assumptions: &["only rules named in the property statement are expected to reject (Expect::Reject); non-finite but otherwise meaningful values (infinite speed, lockout reference out of range) are only required not to crash and are recorded",
                "legacy layout is produced by rewriting the current-layout YAML (speed_sets map -> typed list); only networks whose links all use typed speed_sets have a legacy form"],
        },
        "C03" => Spec { id: "C03", run: train::run_c03, cases_quick: 1600, cases_thorough: 60000,
            rule: "case = generated network (2..8 gaps, grades up to 1.8 %, 1..4 restrictions per set incl. short fast windows between slow zones) x train makeup (1-3 car types, shipped and perturbed vehicles, 3-150 cars, consist sized for weight and grade, conventional/battery mixes, both policies) x extension schedule (whole path + walk(); link-by-link extension with a look-ahead as SavedSim::update_movement; walk_timed_path with entry times from a free run plus random delays). Every saved step: speed >= 0, speed <= posted limit at the front position (reference profile built from the network), speed <= limit in force, speed target <= limit in force; Ok => stopped inside [end-1000 ft, end]; any panic is a violation. Non-trivial = accepted run crossing >=3 link boundaries that brakes for >=1 restriction; distinct = hash of route/train/run length",
            assumptions: TRAIN_ASSUME },
        "C07" => Spec { id: "C07", run: train::run_c07, cases_quick: 6400, cases_thorough: 800000,
            rule: "case = one set-speed or speed-limited run (all extension schedules) with save interval 1; every saved row k is compared with the definitions evaluated statelessly (binary search, no cached indices) at the position/speed of row k-1: grade and curve resistance from the cumulative path functions at front and rear, rolling/davis-B/bearing/aero from coefficients read from the resistance model AND re-derived from the rail vehicles, weight = g*(cars or override + consist), front elevation, front and rear grade. Non-trivial = run in which front and rear are in different grade pieces for >=1 step; distinct = hash of route/train/run",
            assumptions: TRAIN_ASSUME },
        "C11" => Spec { id: "C11", run: train::run_c11, cases_quick: 6400, cases_thorough: 800000,
            rule: "case = one set-speed or speed-limited run with save interval 1; train.history, loco_con.history and every loco history are compared row by row (step index alignment first): demanded wheel power = consist request = consist delivery = sum over units; cumulative wheel energy and its positive/negative parts across the three levels; final fuel/battery totals across levels and getters; annualised getters = totals x 365.25/simulation_days for days in {None,1,7,365}. Non-trivial = run with both positive and negative wheel power on a mixed consist; distinct = hash of route/train/run",
            assumptions: TRAIN_ASSUME },
        "C12" => Spec { id: "C12", run: train::run_c12, cases_quick: 6400, cases_thorough: 800000,
            rule: "case = one set-speed or speed-limited run with save interval 1 over routes with links from 30 m to 6 km; every saved row: time step, trapezoid position update, rear = front - length (same alignment through the run), total distance increment, front segment + in-segment offset identify the front position on the path. Non-trivial = run with a step crossing >=2 link boundaries or >50 rows; distinct = hash of route/train/run",
            assumptions: TRAIN_ASSUME },
        "C14" => Spec { id: "C14", run: train::run_c14, cases_quick: 9600, cases_thorough: 800000,
            rule: "case = one SetSpeedTrainSim::walk over a generated non-negative speed trace with irregular stamps (0.05-10 s), accelerations that do and do not saturate the consist (15 % of traces carry one negative speed at a random index and must be rejected); every row: time and speed bitwise equal to the trace, inertia power with compound mass, resistance power with mean speed, wheel power = clip(inertia+resistance) with clip values taken from the limits the consist published, energy = power x trace dt. Non-trivial = run with >=1 clipped and >=1 unclipped step; distinct = hash of route/train/trace",
            assumptions: TRAIN_ASSUME },
        "C19" => Spec { id: "C19", run: hist::run_c19, cases_quick: 19200, cases_thorough: 1500000,
            rule: "case = one run of one simulation kind (LocomotiveSimulation, ConsistSimulation, SetSpeedTrainSim, SpeedLimitTrainSim whole/timed/link-by-link) with a save interval from {None,1,2,3,7,50,>run} set at construction or through the top-level setter, run lengths 1..900, 30 % of powertrain traces carry an over-limit demand at a chosen step so the run ends with an error; a generic walker collects (len, i column, state.i, save_interval) of every history in the object tree and checks equal lengths, same step per row, equal counters, row count = steps whose index is a multiple of the interval (+ initial state when every step is saved), empty when disabled, interval propagated. Non-trivial = interval not in {None,1} on a consist with >=2 unit kinds; distinct = hash of interval/run length/size",
            assumptions: TRAIN_ASSUME },
        "C20" => Spec { id: "C20", run: mass::run_c20, cases_quick: 24000, cases_thorough: 3000000,
            rule: "case = one object (FuelConverter / Generator / ReversibleEnergyStorage / Locomotive loaded from JSON with redundant mass data: none, consistent, inconsistent, partial, and (35 %) a baseline + ballast + component-mass breakdown, complete or partial, agreeing with the mass or not) followed by 1..12 random calls of component-level set_mass (environment steps), set_mass (all MassSideEffect options, Some/None/derived values), expunge_mass_fields, set_force_max (all five ForceMaxSideEffect options), set_mu (all three MuSideEffect options); or a consist of 1..8 units + a built train. After an accepted call: getters Ok, mass == rating/specific, force_max == mu*mass*g when both known, option-specific side effects; after a rejected call: the stored mass / mu / force_max / baseline / ballast fields are unchanged and every getter that was Ok reports the same value. Non-trivial = sequence with >=1 accepted and >=1 rejected call; distinct = case hash",
            assumptions: &["private mass fields are read through serde_json (pyo3-only getters cannot be linked into a Rust harness)", "Locomotive sequences start from the shipped conventional / battery-electric defaults with mass, mu, force_max overwritten in the JSON"] },
        "C17" => Spec { id: "C17", run: serde_rt::run_c17, cases_quick: 480, cases_thorough: 24000,
            rule: "case k selects a type group (k mod 13): components (incl. batteries with SOC outside their window), locomotive kinds and consists, traces/vehicles/configs/builders, track objects (Link, Network, PathTpc built/finished), the four simulation kinds, estimated-time networks; one evaluation = one object taken through yaml, json and bincode (string/bytes API) and through the file API (to_file/from_file on one path per format per process, so files are overwritten by longer and shorter objects): serialize, deserialize, second round trip byte-identical (no drift), reloaded data equal (bitwise for yaml/bincode, <= 1 ulp per number for json). For simulations EVERY step index 0..N of a short run (8-60 steps) is a checkpoint: save, load, resume to the end, final object compared with the uninterrupted run. Non-trivial = object not in its default/valid() state; distinct = (type, content)",
            assumptions: &["'behaves identically' is decided on the serialized data of the object after running to the end (fields marked serde(skip) are caches rebuilt on demand and are not compared)",
                ".bin files are not read back for objects whose bytes-API round trip already fails (recorded bincode findings): bincode's reader would pre-allocate the length a misaligned stream claims and abort the process"] },
        "C15" => Spec { id: "C15", run: dispatch::run_c15, cases_quick: 320, cases_thorough: 40000,
            rule: "one evaluation = one estimated-time network; generated network (5..45 gaps, 0..k sidings, two origins / two destinations, flips, shortest O-D route 10-160 km) x 1..3 trains (both directions, departure 0..3 h); make_est_times for each; the whole graph is traversed: reciprocity of every forward/backward link, EVERY start-to-end walk enumerated by DFS (primary and alternate links; capped at 4000 per net, cap hits recorded), the arrive/clear events of each walk checked against the track network (origin, destination, contiguity, clear after arrive in order), every time/duration finite and non-negative, primary-predecessor equality and predecessor inequality on every edge, trip time = last - first. Non-trivial = net with >=1 split and >=1 join; distinct = hash of (nodes, walks, splits, route, train)",
            assumptions: DISP_ASSUME },
        "C04" => Spec { id: "C04", run: dispatch::run_dispatch_case, cases_quick: 480, cases_thorough: 20000,
            rule: "case = generated network (single track with 0..k passing sidings, two origins/destinations, lockout declarations: none, between the two tracks of a siding, and interlockings between non-adjacent segments with both listing orders) x 1..16 trains in both directions with equal and distinct departures and lengths shorter and longer than sidings; run_dispatch under the observer hook: every AfterAdvance/AfterRewind/EndOfIteration/Final snapshot is scanned for simultaneous authorities on a link and its flip/lockout links (violations at EndOfIteration/Final, recorded for the transient phases) and for links_blocked consistency; occupancy windows [front enters, tail leaves] are reconstructed from the final dispatch paths and checked pairwise for opposing/lockout overlap, entry/exit headway (8 min) and order of consecutive followers; plus the black-box front-occupancy condition on the returned timed paths. Non-trivial = instance with opposing traffic in which some leg was delayed beyond free running; distinct = hash of (route, trains, iterations, pairs)",
            assumptions: DISP_ASSUME },
        "C05" => Spec { id: "C05", run: dispatch::run_dispatch_case, cases_quick: 480, cases_thorough: 20000,
            rule: "same instances as C04 (own seed stream): Ok => one route per train, starts on an origin at/after departure, ends on a destination, contiguous, non-decreasing finite times, every leg between consecutive dispatch nodes >= the train's own free-running duration (EstTimeNet.time_to_next), returned path == arrive events of the final dispatch path; Err => names the stuck trains or another explicit cause; panic/abort => violation (also in the debug-assertions build av-chk, where get_unchecked carries its bounds precondition); bounded progress on logical steps: advance attempts per outer iteration <= 20000 (the observer stops the run) and outer iterations <= 200 x dispatch nodes; the five unsafe blocks of free_path.rs count their executions (obs.unsafe_block_executions.*). Non-trivial = dispatch with >=1 rewind or a delayed leg; distinct as C04",
            assumptions: DISP_ASSUME },
        "C18" => Spec { id: "C18", run: determinism::run_c18, cases_quick: 480, cases_thorough: 16000,
            rule: "three quarters of the cases run every result-producing pipeline (locomotive / consist / set-speed / speed-limited simulation incl. the builder, make_est_times, run_dispatch) twice in one process and export an output digest per (case, pipeline); the driver repeats the whole run in several FRESH processes (std hash-map seeds differ per process) and compares all digests byte for byte. One quarter builds a LocomotiveSimulationVec of 2..64 heterogeneous simulations (40 % with 1..3 elements made to fail at a chosen step), walks it serially and in parallel under rayon pools of 1,2,3,4,6,8,12,16 threads x 2 repetitions and compares every element with its own serial walk (or untouched input when the batch failed) and the error with the failing indices. One evaluation = one pipeline execution pair or one batch; distinct = distinct output digests (pipelines) / distinct (size, failing set, serial results) of batches with >= 2 elements",
            assumptions: &["distinct work-stealing interleavings cannot be enumerated or counted for rayon: (pool size x repetition) pairs are reported instead; TSan and Miri runs of the batch walk are separate engines (thorough tier)"] },
        _ => return None,
    })
}
