//! C18: results are deterministic and independent of thread scheduling.
//! (a) every result-producing pipeline is run twice in-process and its output digest is exported so
//!     that the driver can compare several FRESH processes (hash-map seeds differ per process);
//! (b) LocomotiveSimulationVec::walk(parallel) under rayon pools of 1..16 threads vs serial walks.
use crate::gen::powertrain::{self as gp, Kind};
use crate::gen::train as gt;
use crate::mon::dispatch as md;
use crate::mon::train as mt;
use crate::report::Ctx;
use crate::rng::{hash_str, mix, Rng};
use altrios_core::consist::locomotive::loco_sim::LocomotiveSimulationVec;
use altrios_core::consist::locomotive::PowertrainType;
use altrios_core::meet_pass::dispatch::run_dispatch;
use altrios_core::meet_pass::est_times::make_est_times;
use altrios_core::prelude::*;
use altrios_core::uc;
use serde_json::json;

fn digest<T: serde::Serialize>(x: &T) -> String {
    // yaml text of the whole object (no hash maps inside the result types used here)
    let s = serde_yaml::to_string(x).unwrap_or_else(|e| format!("<unserializable: {e}>"));
    format!("{:016x}-{}", hash_str(&s), s.len())
}

fn record(ctx: &mut Ctx, pipeline: &str, d1: String, d2: String) {
    ctx.count("obs.in_process_repeats");
    ctx.count(&format!("obs.pipeline.{pipeline}"));
    if d1 != d2 {
        ctx.violate("repeat_identical", &format!("C18:in_process_repeat_differs:{pipeline}"), format!("{pipeline}: two runs on equal inputs in one process gave different outputs"), json!({"pipeline": pipeline}));
    }
    // one evaluation per pipeline execution pair; distinct = distinct output digests
    ctx.rep.evaluations += 1;
    ctx.rep.nontrivial(mix(hash_str(&format!("{pipeline}:{d1}"))));
    ctx.rep.digests.insert(format!("{}:{pipeline}", ctx.case), d1);
}

fn mid_soc(l: &mut Locomotive) {
    if let Some(r) = l.reversible_energy_storage_mut() {
        r.state.soc = uc::R * ((r.min_soc.value + r.max_soc.value) / 2.0);
    }
}

fn trace(rng: &mut Rng, rating: f64, n: usize, fail_at: Option<usize>) -> PowerTrace {
    let mut t = vec![0.0];
    let mut p = vec![0.0];
    for k in 1..=n {
        t.push(t[k - 1] + if rng.chance(0.5) { 1.0 } else { rng.lrange(0.2, 3.0) });
        p.push(if Some(k) == fail_at { rating * 40.0 } else { rating * rng.range(0.0, 0.08) });
    }
    let len = t.len();
    PowerTrace::new(t, p, vec![Some(true); len])
}

fn loco_sim(rng: &mut Rng, fail: bool) -> LocomotiveSimulation {
    let kind = if rng.chance(0.5) { Kind::Conv } else { Kind::Bel };
    let mut l = if rng.chance(0.5) { gp::locomotive(rng, kind) } else if kind == Kind::Conv { Locomotive::default() } else { Locomotive::default_battery_electric_loco() };
    mid_soc(&mut l);
    let n = rng.usize(3, 120);
    let fail_at = if fail { Some(rng.usize(1, n)) } else { None };
    let rating = l.get_pwr_rated().value;
    LocomotiveSimulation::new(l, trace(rng, rating, n, fail_at), *rng.pick(&[None, Some(1), Some(5)]))
}

fn pipelines(ctx: &mut Ctx, rng: &mut Rng) {
    // 1. locomotive / consist simulations
    {
        let s0 = loco_sim(rng, false);
        let (mut a, mut b) = (s0.clone(), s0.clone());
        let (ra, rb) = (a.walk().is_ok(), b.walk().is_ok());
        record(ctx, "LocomotiveSimulation::walk", digest(&(ra, &a)), digest(&(rb, &b)));
    }
    {
        let n = rng.usize(1, 5);
        let (mut con, _k) = gp::consist(rng, n);
        con.loco_vec.iter_mut().for_each(mid_soc);
        let rating: f64 = con.loco_vec.iter().map(|l| l.get_pwr_rated().value).sum();
        let steps = rng.usize(5, 80);
        let s0 = ConsistSimulation::new(con, trace(rng, rating, steps, None), Some(1));
        let (mut a, mut b) = (s0.clone(), s0.clone());
        let (ra, rb) = (a.walk().is_ok(), b.walk().is_ok());
        record(ctx, "ConsistSimulation::walk", digest(&(ra, &a)), digest(&(rb, &b)));
    }
    // 2. train simulations (the builder reads a hash map of car counts)
    if let Some(b) = mt::build_case(rng, 500.0) {
        if let Ok(tp) = b.spec.config.make_train_params() {
            let steps = rng.usize(20, 150);
            let (time, speed) = gt::speed_trace(rng, b.route_len - b.spec.length - 5.0, tp.speed_max.value.min(30.0), steps);
            if time.len() >= 3 {
                let init = InitTrainState::new(Some(uc::S * time[0]), None, Some(uc::MPS * speed[0]));
                let mk = || {
                    let builder = TrainSimBuilder::new("t".into(), b.spec.config.clone(), b.spec.consist.clone(), None, None, Some(init));
                    builder.make_set_speed_train_sim(&b.net.links, &b.route, SpeedTrace::new(time.clone(), speed.clone(), None), Some(1)).ok().map(|mut s| {
                        let ok = s.walk().is_ok();
                        digest(&(ok, &s))
                    })
                };
                if let (Some(d1), Some(d2)) = (mk(), mk()) {
                    record(ctx, "TrainSimBuilder+SetSpeedTrainSim::walk", d1, d2);
                }
            }
            let lm = gt::location_map(&b.net);
            let (o, d) = if b.reverse { ("Br", "Ar") } else { ("A", "B") };
            let mk = || {
                let builder = TrainSimBuilder::new("t".into(), b.spec.config.clone(), b.spec.consist.clone(), Some(o.into()), Some(d.into()), None);
                let mut s = builder.make_speed_limit_train_sim(&lm, Some(1), None, None).ok()?;
                s.extend_path(&b.net.links, &b.route).ok()?;
                let mut n = 0;
                let mut ok = true;
                while n < 400 {
                    let end = s.offset_end().value;
                    if !(s.state.offset.value < end - 304.8 || (s.state.offset.value < end && s.state.speed.value != 0.0)) {
                        break;
                    }
                    if crate::panics::guard(std::panic::AssertUnwindSafe(|| s.step())).map(|r| r.is_err()).unwrap_or(true) {
                        ok = false;
                        break;
                    }
                    n += 1;
                }
                Some(digest(&(ok, n, &s.state, &s.loco_con.state)))
            };
            if let (Some(d1), Some(d2)) = (mk(), mk()) {
                record(ctx, "TrainSimBuilder+SpeedLimitTrainSim steps", d1, d2);
            }
        }
    }
    // 3. estimated times + dispatch (every third case: they are the expensive pipelines)
    if ctx.case % 3 == 0 {
        if let Some(inst) = crate::gen::dispatch::instance(rng, 4) {
            let mut nets = vec![];
            let mut sims = vec![];
            for t in &inst.trains {
                let mk = || {
                    let sim = t.sim.clone();
                    let links = inst.links.clone();
                    crate::mon::train::run_with_timeout(move || crate::panics::guard(std::panic::AssertUnwindSafe(|| make_est_times(sim, &links))), 120)
                };
                match (mk(), mk()) {
                    (Some(Ok(Ok((n1, c1)))), Some(Ok(Ok((n2, c2))))) => {
                        record(ctx, "make_est_times", digest(&(&n1, &c1.state)), digest(&(&n2, &c2.state)));
                        nets.push(n1);
                        sims.push(t.sim.clone());
                    }
                    (Some(Ok(Err(_))), Some(Ok(Err(_)))) | (Some(Err(_)), Some(Err(_))) => ctx.count("obs.make_est_times_failed_both_times"),
                    (None, _) | (_, None) => ctx.count("obs.make_est_times_timeout"),
                    _ => ctx.violate("repeat_identical", "C18:in_process_repeat_differs:make_est_times_outcome", "make_est_times succeeded once and failed once on equal inputs".into(), json!({})),
                }
            }
            if !sims.is_empty() {
                let r1 = crate::panics::guard(std::panic::AssertUnwindSafe(|| run_dispatch(&inst.links, &sims, nets.clone(), false, false)));
                let r2 = crate::panics::guard(std::panic::AssertUnwindSafe(|| run_dispatch(&inst.links, &sims, nets.clone(), false, false)));
                let f = |r: &Result<anyhow::Result<Vec<Vec<LinkIdxTime>>>, crate::panics::PanicInfo>| match r {
                    Ok(Ok(p)) => digest(p),
                    Ok(Err(e)) => format!("Err:{e:#}"),
                    Err(p) => format!("panic:{}", p.message),
                };
                record(ctx, "run_dispatch", f(&r1), f(&r2));
            }
        }
    }
    let _ = md::TOL_MARK;
}

fn parallel_batch(ctx: &mut Ctx, rng: &mut Rng) {
    let n = rng.usize(2, 64);
    let n_fail = if rng.chance(0.4) { rng.usize(1, 3.min(n)) } else { 0 };
    let mut fails: Vec<usize> = vec![];
    while fails.len() < n_fail {
        let k = rng.usize(0, n - 1);
        if !fails.contains(&k) {
            fails.push(k);
        }
    }
    // a quarter of the batches hold look-alikes: the same unit and trace, the drivetrain efficiency tables of
    // neighbouring elements agreeing in length, first and last value but not in between (flat / peaked / dipped).
    // Anything remembered per thread or per process under a partial key confuses exactly such neighbours, and
    // which of them share a thread changes with the pool size.
    let lookalikes = rng.chance(0.25);
    let sims: Vec<LocomotiveSimulation> = if lookalikes {
        ctx.count("obs.batches_of_look-alike_elements");
        let base = loco_sim(rng, false);
        let grid = vec![0.0, 0.25, 0.5, 0.75, 1.0];
        let e = *rng.pick(&[0.9, 0.92, 0.95]);
        (0..n)
            .map(|i| {
                let mut sim = if fails.contains(&i) { let mut f = loco_sim(rng, true); f.loco_unit = base.loco_unit.clone(); f } else { base.clone() };
                let eta = match i % 3 {
                    0 => vec![e; 5],
                    1 => vec![e, e + 0.02, e + 0.04, e + 0.02, e],
                    _ => vec![e, e - 0.05, e - 0.1, e - 0.05, e],
                };
                let rating = match &sim.loco_unit.loco_type {
                    PowertrainType::ConventionalLoco(c) => c.edrv.pwr_out_max.value,
                    PowertrainType::BatteryElectricLoco(b) => b.edrv.pwr_out_max.value,
                    _ => 1e6,
                };
                if let Ok(drv) = ElectricDrivetrain::new(grid.clone(), eta, rating, None) {
                    match &mut sim.loco_unit.loco_type {
                        PowertrainType::ConventionalLoco(c) => c.edrv = drv,
                        PowertrainType::BatteryElectricLoco(b) => b.edrv = drv,
                        _ => {}
                    }
                }
                sim
            })
            .collect()
    } else {
        (0..n).map(|i| loco_sim(rng, fails.contains(&i))).collect()
    };
    // own serial walk of every element
    let serial: Vec<(bool, LocomotiveSimulation)> = sims
        .iter()
        .map(|s| {
            let mut c = s.clone();
            let ok = c.walk().is_ok();
            (ok, c)
        })
        .collect();
    let really_failing: Vec<usize> = serial.iter().enumerate().filter(|(_, s)| !s.0).map(|(i, _)| i).collect();
    // history independence: an element walked on a thread that has never computed anything else gives the same
    // result as its walk above, which ran after the walks of all elements before it on this thread
    for (i, s) in sims.iter().enumerate().take(8) {
        let mut c = s.clone();
        let fresh = std::thread::spawn(move || {
            let ok = c.walk().is_ok();
            (ok, c)
        })
        .join();
        ctx.count("obs.elements_walked_on_a_fresh_thread");
        match fresh {
            Ok((ok, c)) => {
                if ok != serial[i].0 || (ok && digest(&c) != digest(&serial[i].1)) {
                    ctx.violate("independent_of_thread_history", "C18:result_depends_on_what_the_thread_computed_before", format!("element {i} of {n}: its walk on a fresh thread differs from its walk on a thread that had walked elements 0..{i} before"), json!({"element": i, "batch": n, "look_alikes": lookalikes}));
                }
            }
            Err(_) => ctx.count("obs.fresh_thread_panicked"),
        }
    }
    // the crate's own serial batch walk
    {
        let mut v = LocomotiveSimulationVec(sims.clone());
        let r = v.walk(false);
        ctx.count("obs.serial_batch_walks");
        check_batch(ctx, "serial batch walk", &sims, &serial, &really_failing, &v, &r, 0);
    }
    for threads in [1usize, 2, 3, 4, 6, 8, 12, 16] {
        for rep in 0..2 {
            let pool = match rayon::ThreadPoolBuilder::new().num_threads(threads).build() {
                Ok(p) => p,
                Err(_) => {
                    ctx.count("obs.pool_build_failed");
                    continue;
                }
            };
            let mut v = LocomotiveSimulationVec(sims.clone());
            let r = pool.install(|| v.walk(true));
            ctx.count("obs.parallel_batch_walks");
            ctx.count(&format!("obs.pool_size.{threads}"));
            check_batch(ctx, &format!("parallel walk, pool of {threads}, repetition {rep}"), &sims, &serial, &really_failing, &v, &r, threads);
        }
    }
    if n_fail > 0 {
        ctx.count("obs.batches_with_failing_elements");
    }
    // distinct = (batch size, failing elements, content of the serial results); trivial = single-element batches
    if n >= 2 {
        let content: String = serial.iter().map(|(ok, s)| format!("{ok}:{:?};", s.loco_unit.state.energy_out.value.to_bits())).collect();
        ctx.rep.nontrivial(mix(hash_str(&format!("batch:{n}:{n_fail}:{content}"))));
    }
    if ctx.rep.samples.len() < 2 {
        ctx.rep.sample(json!({"batch_elements": n, "failing_elements": really_failing, "pool_sizes": [1, 2, 3, 4, 6, 8, 12, 16], "repetitions_per_pool": 2}));
    }
}

#[allow(clippy::too_many_arguments)]
fn check_batch(ctx: &mut Ctx, how: &str, input: &[LocomotiveSimulation], serial: &[(bool, LocomotiveSimulation)], failing: &[usize], v: &LocomotiveSimulationVec, r: &anyhow::Result<()>, threads: usize) {
    let n = input.len();
    if failing.is_empty() {
        if let Err(e) = r {
            ctx.violate("batch_result", "C18:batch_fails_without_failing_element", format!("[{how}] batch walk failed although every element walks alone: {e:#}"), json!({"elements": n}));
        }
    } else {
        match r {
            Ok(()) => ctx.violate("batch_result", "C18:batch_hides_error", format!("[{how}] batch walk returned Ok although elements {failing:?} fail"), json!({"elements": n})),
            Err(e) => {
                let m = format!("{e:#}");
                let named = failing.iter().any(|k| m.contains(&format!("loco_sim idx:{k}")) && !m.contains(&format!("loco_sim idx:{k}0")) || m.contains(&format!("loco_sim idx:{k}:")) || m.ends_with(&format!("loco_sim idx:{k}")));
                let named_any = failing.iter().any(|k| {
                    // exact index match in the context string
                    m.split("loco_sim idx:").skip(1).any(|rest| rest.chars().take_while(|c| c.is_ascii_digit()).collect::<String>() == k.to_string())
                });
                let _ = named;
                ctx.count("obs.batch_errors_checked");
                if !named_any {
                    ctx.violate("error_names_failing_element", "C18:error_names_wrong_element", format!("[{how}] error does not name a failing element (failing: {failing:?}): {}", m.chars().take(200).collect::<String>()), json!({}));
                }
            }
        }
    }
    for i in 0..n {
        ctx.count("obs.elements_compared");
        let got = &v.0[i];
        let equal_serial = *got == serial[i].1;
        let untouched = *got == input[i];
        let ok = if failing.is_empty() { equal_serial } else { equal_serial || untouched };
        if !ok {
            ctx.violate("element_equals_own_serial_walk", if threads == 0 { "C18:serial_batch_element_differs" } else { "C18:parallel_element_differs_from_serial" },
                format!("[{how}] element {i} of {n} is neither its own serial result{}", if failing.is_empty() { "" } else { " nor its untouched input" }), json!({"element": i, "threads": threads, "failing": failing}));
        }
    }
}

pub fn run_c18(ctx: &mut Ctx, rng: &mut Rng, _t: bool) {
    if ctx.case % 4 == 3 {
        parallel_batch(ctx, rng);
    } else {
        pipelines(ctx, rng);
        if ctx.rep.samples.len() < 2 {
            ctx.rep.sample(json!({"pipelines": ["LocomotiveSimulation::walk", "ConsistSimulation::walk", "TrainSimBuilder+SetSpeedTrainSim::walk", "TrainSimBuilder+SpeedLimitTrainSim steps", "make_est_times", "run_dispatch"],
                "compared": "two runs in this process + the same case in several fresh processes (digests exported to the driver)"}));
        }
    }
}
