//! C16: network validation accepts exactly the consistent networks and never aborts.
//! Fault enumeration: every listed rule is broken in isolation at every segment of each generated
//! valid network; each faulty network must be rejected with an error value (never a panic), each
//! valid network must be accepted through every load path, and the legacy layout must load equal.
use crate::gen::network::{self as gn, NetOpts};
use crate::panics;
use crate::report::Ctx;
use crate::rng::{hash_f64s, hash_str, mix, Rng};
use altrios_core::track::{CatPowerLimit, Elev, Heading, Link, LinkIdx, Network, SpeedLimit};
use altrios_core::traits::SerdeAPI;
use altrios_core::uc;
use serde_json::json;
use std::panic::AssertUnwindSafe;

#[derive(Clone, Copy, PartialEq, Debug)]
enum Expect {
    /// the statement lists this rule: must be an error value
    Reject,
    /// out-of-range / non-finite value whose acceptability the statement leaves open: must not crash
    NoCrash,
}

struct Fault {
    rule: &'static str,
    link: usize,
    expect: Expect,
    links: Vec<Link>,
}

fn scratch_dir() -> std::path::PathBuf {
    let exe = std::env::current_exe().unwrap();
    let d = exe.parent().unwrap().join("scratch").join(format!("c16-{}", std::process::id()));
    std::fs::create_dir_all(&d).unwrap();
    d
}

fn net_sig(links: &[Link]) -> u64 {
    let mut v = vec![];
    for l in links {
        v.push(l.length.value);
        v.push(l.idx_next.idx() as f64);
        v.push(l.idx_prev_alt.idx() as f64);
        v.push(l.elevs.len() as f64);
        v.push(l.headings.len() as f64);
    }
    mix(hash_f64s(&v))
}

fn faults(links: &[Link], rng: &mut Rng) -> Vec<Fault> {
    let n = links.len();
    let mut out: Vec<Fault> = vec![];
    let mut add = |rule: &'static str, link: usize, expect: Expect, f: &dyn Fn(&mut Vec<Link>)| {
        let mut l = links.to_vec();
        f(&mut l);
        out.push(Fault { rule, link, expect, links: l });
    };
    // network-level
    add("first_entry_not_dummy", 0, Expect::Reject, &|l| {
        let mut c = l[1].clone();
        c.idx_curr = LinkIdx::new(0);
        l[0] = c;
    });
    add("first_entry_has_length", 0, Expect::Reject, &|l| l[0].length = uc::M * 10.0);
    add("only_dummy_entry", 0, Expect::Reject, &|l| l.truncate(1));
    for i in 1..n {
        let other = if i + 1 < n { i + 1 } else { i - 1 };
        let far = (1..n).find(|j| {
            *j != i && links[*j].idx_prev.idx() != i && links[*j].idx_prev_alt.idx() != i && links[*j].idx_next.idx() != i && links[*j].idx_next_alt.idx() != i && links[i].idx_flip.idx() != *j
        });
        if other >= 1 && other != i {
            add("idx_curr_not_position", i, Expect::Reject, &|l| l[i].idx_curr = LinkIdx::new(other as u32));
        }
        add("flip_is_self", i, Expect::Reject, &|l| l[i].idx_flip = LinkIdx::new(i as u32));
        if let Some(j) = far {
            if links[j].idx_flip.idx() != i {
                add("flip_not_mutual", i, Expect::Reject, &|l| l[i].idx_flip = LinkIdx::new(j as u32));
            }
            add("next_not_reciprocated", i, Expect::Reject, &|l| l[i].idx_next = LinkIdx::new(j as u32));
            add("prev_not_reciprocated", i, Expect::Reject, &|l| l[i].idx_prev = LinkIdx::new(j as u32));
            if links[i].idx_next.idx() != 0 && links[i].idx_next_alt.idx() == 0 {
                add("next_alt_not_reciprocated", i, Expect::Reject, &|l| l[i].idx_next_alt = LinkIdx::new(j as u32));
            }
            if links[i].idx_prev.idx() != 0 && links[i].idx_prev_alt.idx() == 0 {
                add("prev_alt_not_reciprocated", i, Expect::Reject, &|l| l[i].idx_prev_alt = LinkIdx::new(j as u32));
            }
            if links[i].idx_next.idx() == 0 {
                add("next_alt_without_next", i, Expect::Reject, &|l| l[i].idx_next_alt = LinkIdx::new(j as u32));
            }
            if links[i].idx_prev.idx() == 0 {
                add("prev_alt_without_prev", i, Expect::Reject, &|l| l[i].idx_prev_alt = LinkIdx::new(j as u32));
            }
        }
        if links[i].idx_next_alt.idx() != 0 {
            add("next_alt_without_next", i, Expect::Reject, &|l| l[i].idx_next = LinkIdx::new(0));
        }
        if links[i].idx_prev_alt.idx() != 0 {
            add("prev_alt_without_prev", i, Expect::Reject, &|l| l[i].idx_prev = LinkIdx::new(0));
        }
        if links[i].idx_next.idx() != 0 {
            add("next_dropped_but_still_referenced", i, Expect::Reject, &|l| {
                l[i].idx_next = l[i].idx_next_alt;
                l[i].idx_next_alt = LinkIdx::new(0);
            });
        }
        // references outside the network
        for (k, big) in [(0usize, n as u32), (1, n as u32 + 1), (2, u32::MAX)] {
            let _ = k;
            add("next_out_of_range", i, Expect::Reject, &|l| l[i].idx_next = LinkIdx::new(big));
            add("prev_out_of_range", i, Expect::Reject, &|l| l[i].idx_prev = LinkIdx::new(big));
            add("flip_out_of_range", i, Expect::Reject, &|l| l[i].idx_flip = LinkIdx::new(big));
            if links[i].idx_next.idx() != 0 {
                add("next_alt_out_of_range", i, Expect::Reject, &|l| l[i].idx_next_alt = LinkIdx::new(big));
            }
            if links[i].idx_prev.idx() != 0 {
                add("prev_alt_out_of_range", i, Expect::Reject, &|l| l[i].idx_prev_alt = LinkIdx::new(big));
            }
            add("lockout_out_of_range", i, Expect::NoCrash, &|l| l[i].link_idxs_lockout.push(LinkIdx::new(big)));
        }
        // length
        add("length_zero", i, Expect::Reject, &|l| l[i].length = uc::M * 0.0);
        add("length_negative", i, Expect::Reject, &|l| l[i].length = uc::M * -5.0);
        add("length_nan", i, Expect::Reject, &|l| l[i].length = uc::M * f64::NAN);
        add("length_inf", i, Expect::Reject, &|l| l[i].length = uc::M * f64::INFINITY);
        // elevation profile
        let ne = links[i].elevs.len();
        add("elev_first_not_zero", i, Expect::Reject, &|l| l[i].elevs[0].offset = uc::M * 0.25);
        add("elev_last_not_length", i, Expect::Reject, &|l| {
            let k = l[i].elevs.len() - 1;
            l[i].elevs[k].offset = l[i].length + uc::M * 1.0;
        });
        add("elev_last_short_of_length", i, Expect::Reject, &|l| {
            let k = l[i].elevs.len() - 1;
            let prev = l[i].elevs[k - 1].offset;
            l[i].elevs[k].offset = (prev + l[i].length) / 2.0;
        });
        add("elev_single_point", i, Expect::Reject, &|l| l[i].elevs.truncate(1));
        add("elev_missing", i, Expect::Reject, &|l| l[i].elevs.clear());
        add("elev_value_nan", i, Expect::Reject, &|l| l[i].elevs[0].elev = uc::M * f64::NAN);
        add("elev_value_inf", i, Expect::Reject, &|l| l[i].elevs[0].elev = uc::M * f64::INFINITY);
        add("elev_offset_negative", i, Expect::Reject, &|l| l[i].elevs[0].offset = uc::M * -1.0);
        add("elev_offset_nan", i, Expect::Reject, &|l| l[i].elevs[0].offset = uc::M * f64::NAN);
        if ne >= 3 {
            let k = rng.usize(1, ne - 2);
            add("elev_unsorted", i, Expect::Reject, &|l| l[i].elevs[k].offset = l[i].elevs[k + 1].offset + uc::M * 1.0);
            add("elev_duplicate_offset", i, Expect::Reject, &|l| l[i].elevs[k].offset = l[i].elevs[k - 1].offset);
        }
        // heading profile
        let nh = links[i].headings.len();
        if nh >= 2 {
            add("heading_first_not_zero", i, Expect::Reject, &|l| l[i].headings[0].offset = uc::M * 0.25);
            add("heading_last_not_length", i, Expect::Reject, &|l| {
                let k = l[i].headings.len() - 1;
                l[i].headings[k].offset = l[i].length + uc::M * 1.0;
            });
            add("heading_single_point", i, Expect::Reject, &|l| l[i].headings.truncate(1));
            add("heading_negative", i, Expect::Reject, &|l| l[i].headings[0].heading = uc::RAD * -0.1);
            add("heading_ge_2pi", i, Expect::Reject, &|l| l[i].headings[0].heading = uc::RAD * 6.3);
            add("heading_nan", i, Expect::Reject, &|l| l[i].headings[0].heading = uc::RAD * f64::NAN);
            add("heading_offset_nan", i, Expect::Reject, &|l| l[i].headings[0].offset = uc::M * f64::NAN);
            if nh >= 3 {
                let k = rng.usize(1, nh - 2);
                add("heading_duplicate_offset", i, Expect::Reject, &|l| l[i].headings[k].offset = l[i].headings[k - 1].offset);
                add("heading_unsorted", i, Expect::Reject, &|l| l[i].headings[k].offset = l[i].headings[k + 1].offset + uc::M * 1.0);
            }
        }
        // speed sections
        let mutate_set = |l: &mut Vec<Link>, f: &dyn Fn(&mut Vec<SpeedLimit>)| {
            if let Some(s) = l[i].speed_set.as_mut() {
                f(&mut s.speed_limits);
            } else if let Some(s) = l[i].speed_sets.values_mut().next() {
                f(&mut s.speed_limits);
            }
        };
        add("speed_start_gt_end", i, Expect::Reject, &|l| mutate_set(l, &|v| {
            let a = v[0].offset_end + uc::M * 1.0;
            v[0].offset_start = a;
        }));
        add("speed_duplicate_pair", i, Expect::Reject, &|l| mutate_set(l, &|v| {
            let mut d = v[0];
            d.speed = d.speed + uc::MPS * 1.0;
            v.insert(1, d);
        }));
        add("speed_unsorted", i, Expect::Reject, &|l| mutate_set(l, &|v| {
            let mut d = v[0];
            d.offset_start = d.offset_start + uc::M * 0.5;
            d.offset_end = d.offset_end + uc::M * 0.5;
            v.insert(0, d);
        }));
        add("speed_nan", i, Expect::Reject, &|l| mutate_set(l, &|v| v[0].speed = uc::MPS * f64::NAN));
        add("speed_offset_negative", i, Expect::Reject, &|l| mutate_set(l, &|v| v[0].offset_start = uc::M * -1.0));
        add("speed_offset_nan", i, Expect::Reject, &|l| mutate_set(l, &|v| v[0].offset_end = uc::M * f64::NAN));
        add("speed_inf", i, Expect::NoCrash, &|l| mutate_set(l, &|v| v[0].speed = uc::MPS * f64::INFINITY));
        add("speed_sets_empty_and_no_speed_set", i, Expect::Reject, &|l| {
            l[i].speed_set = None;
            l[i].speed_sets.clear();
        });
        add("speed_set_and_speed_sets_both_given", i, Expect::Reject, &|l| {
            let s = l[i].speed_set.clone().or_else(|| l[i].speed_sets.values().next().cloned()).unwrap();
            l[i].speed_set = Some(s.clone());
            l[i].speed_sets.insert(altrios_core::track::TrainType::Freight, s);
        });
        // catenary sections
        let len = links[i].length;
        add("catenary_overlap", i, Expect::Reject, &|l| {
            l[i].cat_power_limits = vec![
                CatPowerLimit { offset_start: len * 0.1, offset_end: len * 0.6, power_limit: uc::W * 5e6, district_id: None },
                CatPowerLimit { offset_start: len * 0.4, offset_end: len * 0.9, power_limit: uc::W * 5e6, district_id: None },
            ]
        });
        add("catenary_unsorted", i, Expect::Reject, &|l| {
            l[i].cat_power_limits = vec![
                CatPowerLimit { offset_start: len * 0.6, offset_end: len * 0.9, power_limit: uc::W * 5e6, district_id: None },
                CatPowerLimit { offset_start: len * 0.1, offset_end: len * 0.4, power_limit: uc::W * 5e6, district_id: None },
            ]
        });
        add("catenary_past_link_end_not_listed_last", i, Expect::Reject, &|l| {
            l[i].cat_power_limits = vec![
                CatPowerLimit { offset_start: len * 0.6, offset_end: len * 1.5, power_limit: uc::W * 5e6, district_id: None },
                CatPowerLimit { offset_start: len * 0.1, offset_end: len * 0.4, power_limit: uc::W * 5e6, district_id: None },
            ]
        });
        add("catenary_before_link_start", i, Expect::Reject, &|l| {
            l[i].cat_power_limits = vec![CatPowerLimit { offset_start: len * -0.2, offset_end: len * 0.4, power_limit: uc::W * 5e6, district_id: None }]
        });
        add("catenary_start_gt_end", i, Expect::Reject, &|l| {
            l[i].cat_power_limits = vec![CatPowerLimit { offset_start: len * 0.6, offset_end: len * 0.1, power_limit: uc::W * 5e6, district_id: None }]
        });
        add("catenary_past_link_end", i, Expect::Reject, &|l| {
            l[i].cat_power_limits = vec![CatPowerLimit { offset_start: len * 0.6, offset_end: len * 1.5, power_limit: uc::W * 5e6, district_id: None }]
        });
        add("catenary_negative_power", i, Expect::Reject, &|l| {
            l[i].cat_power_limits = vec![CatPowerLimit { offset_start: len * 0.1, offset_end: len * 0.5, power_limit: uc::W * -1.0, district_id: None }]
        });
        add("catenary_nan_offset", i, Expect::Reject, &|l| {
            l[i].cat_power_limits = vec![CatPowerLimit { offset_start: uc::M * f64::NAN, offset_end: len * 0.5, power_limit: uc::W * 1.0, district_id: None }]
        });
    }
    out
}

fn load_paths(ctx: &mut Ctx, links: &[Link], dir: &std::path::Path, tag: &str) -> Vec<(&'static str, Result<Result<Network, String>, panics::PanicInfo>)> {
    let net = Network(links.to_vec());
    let mut res = vec![];
    // direct validation
    res.push(("validate", panics::guard(AssertUnwindSafe(|| gn::validate(links).map(|_| net.clone())))));
    // JSON / YAML strings
    if let Ok(js) = serde_json::to_string(&net) {
        res.push(("from_json", panics::guard(AssertUnwindSafe(|| Network::from_json(&js).map_err(|e| format!("{e:#}"))))));
    } else {
        ctx.count("obs.json_serialise_failed(non-finite)");
    }
    if let Ok(ys) = serde_yaml::to_string(&net) {
        res.push(("from_yaml", panics::guard(AssertUnwindSafe(|| Network::from_yaml(&ys).map_err(|e| format!("{e:#}"))))));
        let f = dir.join(format!("{tag}.yaml"));
        if std::fs::write(&f, &ys).is_ok() {
            res.push(("from_file_yaml", panics::guard(AssertUnwindSafe(|| Network::from_file(&f).map_err(|e| format!("{e:#}"))))));
            let _ = std::fs::remove_file(&f);
        }
        // the same network written in the legacy layout (only when every link uses typed speed sets)
        if let Some(old) = serde_yaml::to_value(&net).ok().and_then(|v| to_legacy(&v)) {
            if let Ok(os) = serde_yaml::to_string(&old) {
                let f = dir.join(format!("{tag}.legacy.yaml"));
                if std::fs::write(&f, &os).is_ok() {
                    res.push(("from_file_legacy_yaml", panics::guard(AssertUnwindSafe(|| Network::from_file(&f).map_err(|e| format!("{e:#}"))))));
                    let _ = std::fs::remove_file(&f);
                }
            }
        }
    }
    res
}

/// rewrite a current-layout YAML value into the legacy layout (speed_sets as a typed list)
pub(crate) fn to_legacy(v: &serde_yaml::Value) -> Option<serde_yaml::Value> {
    let seq = v.as_sequence()?;
    let mut out = vec![];
    for l in seq {
        let mut m = l.as_mapping()?.clone();
        let key_sets = serde_yaml::Value::String("speed_sets".into());
        let key_set = serde_yaml::Value::String("speed_set".into());
        if let Some(s) = m.get(&key_set) {
            if !s.is_null() {
                return None; // legacy layout has no train-type-neutral set
            }
        }
        m.remove(&key_set);
        let sets = m.get(&key_sets)?.as_mapping()?.clone();
        let mut list = vec![];
        for (tt, set) in sets.iter() {
            let mut sm = set.as_mapping()?.clone();
            sm.insert(serde_yaml::Value::String("train_type".into()), tt.clone());
            list.push(serde_yaml::Value::Mapping(sm));
        }
        m.insert(key_sets, serde_yaml::Value::Sequence(list));
        out.push(serde_yaml::Value::Mapping(m));
    }
    Some(serde_yaml::Value::Sequence(out))
}

pub fn run(ctx: &mut Ctx, rng: &mut Rng, _thorough: bool) {
    let dir = scratch_dir();
    let mut o = NetOpts::path_default(rng);
    o.gaps = (1, 6);
    o.p_lockout = 0.3;
    o.max_restrictions = 4;
    let gen = gn::network(rng, &o);
    let links = gen.links.clone();
    // (a) the valid network must be accepted through every load path
    ctx.count("obs.valid_networks");
    let mut accepted = true;
    for (path, r) in load_paths(ctx, &links, &dir, &format!("v{}", ctx.case)) {
        ctx.count(&format!("obs.valid_load.{path}"));
        match r {
            Ok(Ok(n)) => {
                // serde_json's default float parser is not exact to the last bit (C17's subject), so
                // equality of the loaded network is only demanded of the exact formats
                if path != "from_json" && n.0 != links {
                    ctx.violate("valid_roundtrip_equal", "C16:valid_load_differs", format!("{path}: loaded network differs from the one written"), json!({"path": path}));
                }
            }
            Ok(Err(e)) => {
                accepted = false;
                let cat = if e.contains("Catenary power limit offset pairs must be non-overlapping") { ":catenary_disjoint" } else { "" };
                ctx.violate("valid_accepted", &format!("C16:valid_rejected{cat}"), format!("{path}: consistent network rejected: {}", e.chars().take(300).collect::<String>()),
                    json!({"path": path, "network": serde_json::to_value(Network(links.clone())).unwrap_or(json!(null))}));
            }
            Err(p) => {
                accepted = false;
                ctx.violate("no_abort", "C16:panic_on_valid", format!("{path}: panic on a consistent network: {} at {}", p.message, p.location), json!({"path": path}));
            }
        }
    }
    if !accepted {
        let _ = std::fs::remove_dir_all(&dir);
        return;
    }
    // (c) legacy layout loads to the same network
    if let Ok(v) = serde_yaml::to_value(Network(links.clone())) {
        if let Some(old) = to_legacy(&v) {
            let f = dir.join(format!("legacy{}.yaml", ctx.case));
            std::fs::write(&f, serde_yaml::to_string(&old).unwrap()).unwrap();
            ctx.count("obs.legacy_layout_loads");
            match panics::guard(AssertUnwindSafe(|| Network::from_file(&f).map_err(|e| format!("{e:#}")))) {
                Ok(Ok(n)) => {
                    if n.0 != links {
                        ctx.violate("legacy_equal", "C16:legacy_differs", "legacy-layout load differs from current-layout network".into(), json!({}));
                    }
                }
                Ok(Err(e)) => ctx.violate("legacy_equal", "C16:legacy_rejected", format!("legacy-layout file rejected: {}", e.chars().take(300).collect::<String>()), json!({})),
                Err(p) => ctx.violate("no_abort", "C16:panic_on_legacy", format!("panic loading legacy layout: {} at {}", p.message, p.location), json!({})),
            }
            let _ = std::fs::remove_file(&f);
        }
    }
    // (b) single-fault mutations
    let fs = faults(&links, rng);
    let nfaults = fs.len();
    let mut rules_seen = std::collections::BTreeSet::new();
    for (k, f) in fs.into_iter().enumerate() {
        rules_seen.insert(f.rule);
        ctx.count("obs.faults_injected");
        // one evaluation per faulty network; distinct = (rule, faulty network content)
        ctx.rep.evaluations += 1;
        ctx.rep.nontrivial(mix(hash_str(f.rule) ^ net_sig(&f.links)));
        ctx.count(&format!("obs.fault.{}", f.rule));
        for (path, r) in load_paths(ctx, &f.links, &dir, &format!("f{}_{k}", ctx.case)) {
            match r {
                Ok(Ok(_)) => {
                    if f.expect == Expect::Reject {
                        ctx.violate("fault_rejected", &format!("C16:fault_accepted:{}", f.rule), format!("{path}: network with fault `{}` at link {} was accepted", f.rule, f.link),
                            json!({"rule": f.rule, "link": f.link, "path": path, "faulty_link": serde_json::to_value(&f.links.get(f.link)).unwrap_or(json!(null))}));
                    } else {
                        ctx.count(&format!("obs.nocrash_accepted.{}", f.rule));
                    }
                }
                Ok(Err(_)) => ctx.count("obs.faults_rejected_with_error_value"),
                Err(p) => {
                    let loc = if panics::in_repo(&p) { p.location.rsplit('/').next().unwrap_or("").to_string() } else { "harness".into() };
                    ctx.violate("no_abort", &format!("C16:panic:{}:{}", f.rule.trim_end_matches(char::is_numeric), loc), format!("{path}: fault `{}` at link {} panicked: {} at {}", f.rule, f.link, p.message.chars().take(200).collect::<String>(), p.location),
                        json!({"rule": f.rule, "link": f.link, "path": path}));
                }
            }
        }
    }
    // references that do not fit the index type: the file says idx + 2^32 (or idx + 2^40) where the consistent
    // network says idx. Narrowing such a number silently would alias it to the very link that makes the network
    // consistent, so every load path must answer with an error value. Text-level fault: the typed structs cannot
    // hold it.
    if let Ok(good) = serde_json::to_value(Network(links.clone())) {
        let n = links.len();
        for _ in 0..3 {
            let i = rng.usize(1, n - 1);
            for field in ["idx_next", "idx_prev", "idx_flip", "idx_curr"] {
                let v = match good.get(i).and_then(|l| l.get(field)).and_then(|x| x.as_u64()) {
                    Some(v) if v != 0 || field == "idx_curr" => v,
                    _ => continue,
                };
                for shift in [32u32, 40] {
                    let mut bad = good.clone();
                    bad[i][field] = json!(v + (1u64 << shift));
                    let rule = "reference_wider_than_the_index_type";
                    ctx.count("obs.faults_injected");
                    ctx.count(&format!("obs.fault.{rule}"));
                    ctx.rep.evaluations += 1;
                    let js = bad.to_string();
                    let ys = serde_yaml::to_string(&bad).unwrap_or_default();
                    let mut res = vec![("from_json", panics::guard(AssertUnwindSafe(|| Network::from_json(&js).map_err(|e| format!("{e:#}")))))];
                    if !ys.is_empty() {
                        res.push(("from_yaml", panics::guard(AssertUnwindSafe(|| Network::from_yaml(&ys).map_err(|e| format!("{e:#}"))))));
                    }
                    for (path, r) in res {
                        match r {
                            Ok(Ok(_)) => ctx.violate("fault_rejected", &format!("C16:fault_accepted:{rule}"), format!("{path}: link {i} says {field} = {} (= {v} + 2^{shift}), which no index can hold, and the network was accepted", v + (1u64 << shift)),
                                json!({"rule": rule, "link": i, "field": field, "path": path})),
                            Ok(Err(_)) => ctx.count("obs.faults_rejected_with_error_value"),
                            Err(pn) => ctx.violate("no_abort", &format!("C16:panic:{rule}"), format!("{path}: {field} = {} panicked: {} at {}", v + (1u64 << shift), pn.message.chars().take(200).collect::<String>(), pn.location), json!({"rule": rule, "link": i, "field": field, "path": path})),
                        }
                    }
                }
            }
        }
    }
    // coincident switch points: two adjacent double gaps, otherwise fully reciprocal
    {
        let mut o2 = o.clone();
        o2.gaps = (3, 5);
        o2.p_double = 1.0;
        o2.p_double_ends = 0.0;
        o2.allow_adjacent_double = true;
        let g2 = gn::network(rng, &o2);
        if g2.gaps.windows(2).any(|w| w[0].len() == 2 && w[1].len() == 2) {
            ctx.count("obs.fault.coincident_switch_points");
            ctx.count("obs.faults_injected");
            match panics::guard(AssertUnwindSafe(|| gn::validate(&g2.links))) {
                Ok(Ok(())) => ctx.violate("fault_rejected", "C16:fault_accepted:coincident_switch_points", "network with coincident switch points accepted".into(), json!({})),
                Ok(Err(_)) => ctx.count("obs.faults_rejected_with_error_value"),
                Err(p) => ctx.violate("no_abort", "C16:panic:coincident_switch_points", format!("panic: {} at {}", p.message, p.location), json!({})),
            }
        }
    }
    // coincident switch points that meet through the ALTERNATE reference on both sides only:
    // A: next = B, next_alt = C;  C: prev = D, prev_alt = A;  B and D have one neighbour each
    {
        let mut o3 = o.clone();
        o3.gaps = (4, 4);
        o3.p_double = 0.0;
        o3.p_double_ends = 0.0;
        o3.flips = false;
        o3.shuffle_idx = false;
        o3.p_lockout = 0.0;
        let g3 = gn::network(rng, &o3);
        if g3.links.len() == 5 && gn::validate(&g3.links).is_ok() {
            let mut l = g3.links.clone();
            let li = |i: u32| altrios_core::track::LinkIdx::new(i);
            // chain 1 -> 2 -> 3 -> 4 becomes the scissors 1 -> 2, 1 -> 4 (alt), 3 -> 4
            l[1].idx_next = li(2);
            l[1].idx_next_alt = li(4);
            l[2].idx_prev = li(1);
            l[2].idx_prev_alt = li(0);
            l[2].idx_next = li(0);
            l[2].idx_next_alt = li(0);
            l[3].idx_prev = li(0);
            l[3].idx_prev_alt = li(0);
            l[3].idx_next = li(4);
            l[3].idx_next_alt = li(0);
            l[4].idx_prev = li(3);
            l[4].idx_prev_alt = li(1);
            ctx.count("obs.fault.coincident_switch_points_through_alternate_references");
            ctx.count("obs.faults_injected");
            ctx.rep.evaluations += 1;
            match panics::guard(AssertUnwindSafe(|| gn::validate(&l))) {
                Ok(Ok(())) => ctx.violate("fault_rejected", "C16:fault_accepted:coincident_switch_points_through_alternate_references", "network whose two switches meet through the alternate references on both sides was accepted".into(), json!({})),
                Ok(Err(_)) => ctx.count("obs.faults_rejected_with_error_value"),
                Err(p) => ctx.violate("no_abort", "C16:panic:coincident_switch_points_through_alternate_references", format!("panic: {} at {}", p.message, p.location), json!({})),
            }
        }
    }
    ctx.rep.nontrivial(net_sig(&links));
    ctx.rep.sample(json!({"valid_network_links": links.len() - 1, "single_fault_mutations": nfaults, "rules": rules_seen.iter().collect::<Vec<_>>(),
        "load_paths": ["[Link]::validate", "Network::from_json", "Network::from_yaml", "Network::from_file(.yaml)"]}));
    let _ = std::fs::remove_dir_all(&dir);
}

/// the shipped legacy file and the shipped current file describe the same network
pub fn shipped_files(ctx: &mut Ctx) {
    let base = "/repo/python/altrios/resources/networks";
    let a = Network::from_file(format!("{base}/Taconite.yaml"));
    let b = Network::from_file(format!("{base}/Taconite_v0.1.6.yaml"));
    ctx.count("obs.shipped_legacy_pair");
    match (a, b) {
        (Ok(a), Ok(b)) => {
            if a != b {
                // not a listed rule by itself (the files may have drifted); recorded
                ctx.count("obs.shipped_legacy_pair_differs(record_only)");
            } else {
                ctx.count("obs.shipped_legacy_pair_equal");
            }
        }
        (a, b) => {
            ctx.count("obs.shipped_file_rejected");
            ctx.rep.diag(json!({"shipped_load_error": format!("{:?} / {:?}", a.err().map(|e| format!("{e:#}").chars().take(200).collect::<String>()), b.err().map(|e| format!("{e:#}").chars().take(200).collect::<String>()))}));
        }
    }
    for f in ["simple_corridor_network.yaml", "Taconite-NoBalloon.yaml", "links_test.yaml"] {
        ctx.count("obs.shipped_files_loaded");
        if let Err(e) = Network::from_file(format!("{base}/{f}")) {
            ctx.rep.diag(json!({"shipped_file": f, "error": format!("{e:#}").chars().take(300).collect::<String>()}));
            ctx.count("obs.shipped_file_rejected");
        }
    }
}

pub fn run_c16(ctx: &mut Ctx, rng: &mut Rng, thorough: bool) {
    if ctx.case == 0 {
        shipped_files(ctx);
    }
    run(ctx, rng, thorough)
}
