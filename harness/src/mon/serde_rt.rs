//! C17: every model object survives save/load in every advertised format, mid-run too.
//! Fault enumeration over (type x format x state), with every step index of short simulations as a
//! checkpoint position for the four simulation kinds.
use crate::gen::network::{self as gn, NetOpts};
use crate::gen::powertrain::{self as gp, Kind};
use crate::gen::train as gt;
use crate::mon::train as mt;
use crate::report::Ctx;
use crate::rng::{hash_str, mix, Rng};
use altrios_core::consist::locomotive::{DummyLoco, HybridLoco, PowertrainType};
use altrios_core::prelude::*;
use altrios_core::track::{Link, Network, PathTpc, TrainParams};
use altrios_core::traits::SerdeAPI;
use altrios_core::uc;
use serde_json::json;
use serde_yaml::Value as Y;

const FORMATS: [&str; 3] = ["yaml", "json", "bincode"];

enum Enc {
    S(String),
    B(Vec<u8>),
}

fn enc<T: SerdeAPI>(x: &T, f: &str) -> Result<Enc, String> {
    match f {
        "yaml" => x.to_yaml().map(Enc::S),
        "json" => x.to_json().map(Enc::S),
        _ => x.to_bincode().map(Enc::B),
    }
    .map_err(|e| format!("{e:#}").chars().take(200).collect())
}
fn dec<T: SerdeAPI>(e: &Enc, f: &str) -> Result<T, String> {
    match (e, f) {
        (Enc::S(s), "yaml") => T::from_yaml(s),
        (Enc::S(s), "json") => T::from_json(s),
        (Enc::B(b), _) => T::from_bincode(b),
        _ => unreachable!(),
    }
    .map_err(|e| format!("{e:#}").chars().take(200).collect())
}
fn same(a: &Enc, b: &Enc) -> bool {
    match (a, b) {
        (Enc::S(x), Enc::S(y)) => x == y,
        (Enc::B(x), Enc::B(y)) => x == y,
        _ => false,
    }
}

/// key paths (indices stripped) of non-finite numbers in an object
fn non_finite_paths<T: serde::Serialize>(x: &T) -> Vec<String> {
    fn walk(v: &Y, path: &str, out: &mut Vec<String>) {
        match v {
            Y::Number(n) => {
                if let Some(f) = n.as_f64() {
                    if !f.is_finite() {
                        let s = format!("{path}={}", if f.is_nan() { "nan" } else { "inf" });
                        if !out.contains(&s) {
                            out.push(s);
                        }
                    }
                }
            }
            Y::Sequence(s) => s.iter().for_each(|e| walk(e, path, out)),
            Y::Mapping(m) => {
                for (k, e) in m {
                    let ks = k.as_str().map(|s| s.to_string()).unwrap_or_else(|| "?".into());
                    // keep the last two keys only: exact enough and stable across container types
                    let p = match path.rsplit_once('.') {
                        Some((_, last)) => format!("{last}.{ks}"),
                        None if path.is_empty() => ks.clone(),
                        None => format!("{path}.{ks}"),
                    };
                    walk(e, &p, out);
                }
            }
            _ => {}
        }
    }
    let mut out = vec![];
    if let Ok(v) = serde_yaml::to_value(x) {
        walk(&v, "", &mut out);
    }
    out
}

/// which skippable fields are currently being omitted (they break non-self-describing bincode)
fn skipped_fields<T: serde::Serialize>(x: &T) -> Vec<&'static str> {
    fn walk(v: &Y, out: &mut Vec<&'static str>) {
        match v {
            Y::Sequence(s) => s.iter().for_each(|e| walk(e, out)),
            Y::Mapping(m) => {
                let has = |k: &str| m.contains_key(&Y::String(k.into()));
                let mut add = |s: &'static str| {
                    if !out.contains(&s) {
                        out.push(s)
                    }
                };
                // structs with a skippable `state`
                if (has("save_interval") && has("history") && !has("loco_con") || has("loco_vec") || has("loco_type") || has("speed_trace") || has("braking_points")) && !has("state") {
                    add("state");
                }
                if has("idx_curr") && has("idx_flip") && !has("osm_id") {
                    add("osm_id");
                }
                if has("heading") && has("offset") && (!has("Lat") || !has("Lon")) {
                    add("Lat/Lon");
                }
                if has("n_cars_by_type") && !has("cd_area_vec") {
                    add("cd_area_vec");
                }
                // Location.is_front_end is read with a deserialize_any helper, which bincode cannot serve
                if has("Is Front End") && has("Location ID") {
                    add("Location.is_front_end(deserialize_any)");
                }
                for (_, e) in m {
                    walk(e, out);
                }
            }
            _ => {}
        }
    }
    let mut out = vec![];
    if let Ok(v) = serde_yaml::to_value(x) {
        walk(&v, &mut out);
    }
    out
}

fn y_approx(a: &Y, b: &Y, rel: f64) -> bool {
    match (a, b) {
        (Y::Number(x), Y::Number(y)) => match (x.as_f64(), y.as_f64()) {
            (Some(p), Some(q)) => p == q || (p.is_nan() && q.is_nan()) || (p - q).abs() <= rel * p.abs().max(q.abs()).max(1e-300),
            _ => x == y,
        },
        (Y::Sequence(x), Y::Sequence(y)) => x.len() == y.len() && x.iter().zip(y).all(|(p, q)| y_approx(p, q, rel)),
        (Y::Mapping(x), Y::Mapping(y)) => x.len() == y.len() && x.iter().all(|(k, v)| y.get(k).map(|w| y_approx(v, w, rel)).unwrap_or(false)),
        _ => a == b,
    }
}

/// first differing key path between two values (for diagnostics)
fn y_diff(a: &Y, b: &Y, rel: f64, path: String) -> Option<String> {
    match (a, b) {
        (Y::Sequence(x), Y::Sequence(y)) => {
            if x.len() != y.len() {
                return Some(format!("{path}: len {} vs {}", x.len(), y.len()));
            }
            x.iter().zip(y).enumerate().find_map(|(i, (p, q))| y_diff(p, q, rel, format!("{path}[{i}]")))
        }
        (Y::Mapping(x), Y::Mapping(y)) => {
            for (k, v) in x {
                let ks = k.as_str().unwrap_or("?").to_string();
                match y.get(k) {
                    None => return Some(format!("{path}.{ks}: missing on one side")),
                    Some(w) => {
                        if let Some(d) = y_diff(v, w, rel, format!("{path}.{ks}")) {
                            return Some(d);
                        }
                    }
                }
            }
            if x.len() != y.len() {
                return Some(format!("{path}: key count {} vs {}", x.len(), y.len()));
            }
            None
        }
        _ => {
            if y_approx(a, b, rel) {
                None
            } else {
                Some(format!("{path}: {a:?} vs {b:?}"))
            }
        }
    }
}

/// fingerprint used for "behaves identically": the YAML value of the object (skip-fields excluded by construction)
fn yv<T: serde::Serialize>(x: &T) -> Y {
    serde_yaml::to_value(x).unwrap_or(Y::Null)
}

fn fail(ctx: &mut Ctx, ty: &str, state: &str, fmt: &str, stage: &str, err: &str, skipped: &[&'static str], nonfin: &[String]) {
    // exact signatures of the recorded findings (one per omitted-field kind / non-finite field);
    // anything else keeps the generic signature and is reported
    let mut sigs: Vec<String> = vec![];
    if fmt == "bincode" && (stage == "deserialize" || stage == "second_roundtrip") && !skipped.is_empty() {
        for k in skipped {
            if k.starts_with("Location") {
                sigs.push("C17:bincode:deserialize_any:Location.is_front_end".to_string());
            } else {
                sigs.push(format!("C17:bincode:field_omitted_when_default_or_none:{k}"));
            }
        }
    } else if fmt == "json" && (stage == "deserialize" || stage == "second_roundtrip") && !nonfin.is_empty() && err.contains("null") {
        for k in nonfin {
            sigs.push(format!("C17:json:non_finite_number:{k}"));
        }
    } else {
        sigs.push(format!("C17:{fmt}:{stage}:{ty}"));
    }
    for sig in sigs {
        ctx.violate(&format!("{stage}_ok"), &sig, format!("{ty} [{state}] {fmt}: {stage} failed: {err}"), json!({"type": ty, "state": state, "format": fmt, "omitted_fields": skipped, "non_finite": nonfin}));
    }
}

/// plain round trip + idempotence + value equality; returns reloaded objects per format that worked
fn roundtrip<T: SerdeAPI + Clone>(ctx: &mut Ctx, ty: &str, state: &str, x: &T) -> Vec<(&'static str, T)> {
    let mut out = vec![];
    let skipped = skipped_fields(x);
    let nonfin = non_finite_paths(x);
    let xv = yv(x);
    // one evaluation per object taken through the formats; distinct by (type, content); objects in a
    // default / `valid()` state are the trivial ones
    ctx.rep.evaluations += 1;
    if !(state.starts_with("default") && !state.contains(',')) && state != "valid()" {
        ctx.rep.nontrivial(mix(hash_str(ty) ^ hash_str(&serde_yaml::to_string(&xv).unwrap_or_default())));
    }
    for f in FORMATS {
        ctx.count("obs.roundtrips");
        ctx.count(&format!("obs.roundtrips.{f}"));
        let e1 = match enc(x, f) {
            Ok(e) => e,
            Err(e) => {
                fail(ctx, ty, state, f, "serialize", &e, &skipped, &nonfin);
                continue;
            }
        };
        let y: T = match dec(&e1, f) {
            Ok(y) => y,
            Err(e) => {
                fail(ctx, ty, state, f, "deserialize", &e, &skipped, &nonfin);
                continue;
            }
        };
        ctx.count("obs.roundtrips_ok");
        // no drift: save(load(save(load(save x)))) == save(load(save x))
        // (compared as data, not as bytes: objects holding hash maps may legitimately list entries in another order)
        match enc(&y, f).and_then(|e2| dec::<T>(&e2, f).and_then(|y2| enc(&y2, f).and_then(|e3| dec::<T>(&e3, f).map(|y3| (e2, e3, y2, y3))))) {
            Ok((e2, e3, y2, y3)) => {
                if !same(&e2, &e3) && !y_approx(&yv(&y2), &yv(&y3), 0.0) {
                    ctx.violate("no_drift", &format!("C17:{f}:drift:{ty}"), format!("{ty} [{state}] {f}: second round trip differs from the first"), json!({"type": ty, "state": state}));
                }
            }
            Err(e) => fail(ctx, ty, state, f, "second_roundtrip", &e, &skipped_fields(&y), &non_finite_paths(&y)),
        }
        // the reloaded object carries the same data
        let yv_ = yv(&y);
        let ok = if f == "json" { y_approx(&xv, &yv_, 4e-16) } else { xv == yv_ || y_approx(&xv, &yv_, 0.0) };
        if !ok && !state.contains("constructor caches not yet refreshed") {
            ctx.violate("reload_equal", &format!("C17:{f}:reload_differs:{ty}"), format!("{ty} [{state}] {f}: reloaded object differs from the original"), json!({"type": ty, "state": state}));
        }
        out.push((f, y));
    }
    file_roundtrip(ctx, ty, state, x, &xv);
    out
}

/// The file API (`to_file` / `from_file`), always to the same three paths of this process: the
/// "latest checkpoint" pattern, where a file is overwritten by objects of other sizes and types.
fn file_roundtrip<T: SerdeAPI + Clone>(ctx: &mut Ctx, ty: &str, state: &str, x: &T, xv: &Y) {
    use std::cell::RefCell;
    thread_local! { static LAST_LEN: RefCell<[u64; 3]> = const { RefCell::new([0; 3]) }; }
    let dir = std::env::temp_dir().join(format!("altrios-verif-{}", std::process::id()));
    if std::fs::create_dir_all(&dir).is_err() {
        ctx.count("obs.file_scratch_unavailable");
        return;
    }
    for (i, ext) in ["yaml", "json", "bin"].iter().enumerate() {
        let path = dir.join(format!("latest.{ext}"));
        ctx.count("obs.file_roundtrips");
        if let Err(e) = x.to_file(&path) {
            let e: String = format!("{e:#}").chars().take(200).collect();
            fail(ctx, ty, state, if *ext == "bin" { "bincode" } else { ext }, "serialize", &e, &skipped_fields(x), &non_finite_paths(x));
            let _ = std::fs::remove_file(&path);
            LAST_LEN.with(|l| l.borrow_mut()[i] = 0);
            continue;
        }
        let expect_len = match *ext {
            "yaml" => x.to_yaml().map(|s| s.len() as u64).ok(),
            "json" => x.to_json().map(|s| s.len() as u64).ok(),
            _ => x.to_bincode().map(|b| b.len() as u64).ok(),
        };
        let len = std::fs::metadata(&path).map(|m| m.len()).unwrap_or(0);
        let prev = LAST_LEN.with(|l| std::mem::replace(&mut l.borrow_mut()[i], len));
        if let Some(el) = expect_len {
            if prev > el {
                ctx.count("obs.file_overwrites_of_a_longer_file");
            }
        }
        if *ext == "bin" && !x.to_bincode().ok().map(|b| T::from_bincode(&b).is_ok()).unwrap_or(false) {
            // the bytes API already fails for this object (recorded bincode findings); reading such a stream
            // through a reader lets bincode pre-allocate whatever length the misaligned stream claims (observed:
            // 1.6e17 bytes => allocation failure => process abort), so the file is not read back
            ctx.count("obs.file_bin_reads_skipped_because_bytes_api_fails");
            continue;
        }
        match T::from_file(&path) {
            Ok(y) => {
                ctx.count("obs.file_roundtrips_ok");
                let yv_ = yv(&y);
                let ok = if *ext == "json" { y_approx(xv, &yv_, 4e-16) } else { *xv == yv_ || y_approx(xv, &yv_, 0.0) };
                if !ok && !state.contains("constructor caches not yet refreshed") {
                    ctx.violate("reload_equal", &format!("C17:file:{ext}:reload_differs:{ty}"), format!("{ty} [{state}] file.{ext}: object read back from the file differs from the one written"), json!({"type": ty, "state": state, "previous_file_len": prev, "file_len": len}));
                }
            }
            Err(e) => {
                // only a failure of the file API itself is new information: the string API of the same format is judged above
                let string_api_ok = match *ext {
                    "yaml" => x.to_yaml().ok().map(|s| T::from_yaml(s).is_ok()),
                    "json" => x.to_json().ok().map(|s| T::from_json(s).is_ok()),
                    _ => x.to_bincode().ok().map(|b| T::from_bincode(&b).is_ok()),
                }
                .unwrap_or(false);
                if string_api_ok {
                    let e: String = format!("{e:#}").chars().take(200).collect();
                    ctx.violate("file_readable", &format!("C17:file:{ext}:unreadable_after_overwrite"), format!("{ty} [{state}]: from_file fails on the file just written by to_file ({e}) although the same object round-trips through the {ext} string API; previous file at this path had {prev} bytes, this one {len}"), json!({"type": ty, "state": state, "previous_file_len": prev, "file_len": len}));
                }
            }
        }
    }
}

// ---------------------------------------------------------------- simulations with checkpoints

trait Sim: SerdeAPI + Clone {
    const NAME: &'static str;
    fn step_once(&mut self) -> anyhow::Result<bool>; // Ok(false) when finished
}
impl Sim for LocomotiveSimulation {
    const NAME: &'static str = "LocomotiveSimulation";
    fn step_once(&mut self) -> anyhow::Result<bool> {
        if self.i >= self.power_trace.len() {
            return Ok(false);
        }
        self.step()?;
        Ok(true)
    }
}
impl Sim for ConsistSimulation {
    const NAME: &'static str = "ConsistSimulation";
    fn step_once(&mut self) -> anyhow::Result<bool> {
        if self.i >= self.power_trace.len() {
            return Ok(false);
        }
        self.step()?;
        Ok(true)
    }
}
impl Sim for SetSpeedTrainSim {
    const NAME: &'static str = "SetSpeedTrainSim";
    fn step_once(&mut self) -> anyhow::Result<bool> {
        if self.state.i >= self.speed_trace.len() {
            return Ok(false);
        }
        self.step()?;
        Ok(true)
    }
}
impl Sim for SpeedLimitTrainSim {
    const NAME: &'static str = "SpeedLimitTrainSim";
    fn step_once(&mut self) -> anyhow::Result<bool> {
        let end = self.offset_end().value;
        let go = self.state.offset.value < end - 1000.0 * 0.3048 || (self.state.offset.value < end && self.state.speed.value != 0.0);
        if !go {
            return Ok(false);
        }
        self.step()?;
        Ok(true)
    }
}

fn run_to_end<S: Sim>(s: &mut S, max: usize) -> usize {
    run_to_end_how(s, max).0
}

/// steps completed, and how the run ended: Some(true) = a step failed, Some(false) = finished, None = budget reached
fn run_to_end_how<S: Sim>(s: &mut S, max: usize) -> (usize, Option<bool>) {
    let mut n = 0;
    while n < max {
        match s.step_once() {
            Ok(true) => n += 1,
            Ok(false) => return (n, Some(false)),
            Err(_) => return (n, Some(true)),
        }
    }
    (n, None)
}

fn checkpoints<S: Sim>(ctx: &mut Ctx, sim0: &S, max_steps: usize) {
    checkpoints_opt(ctx, sim0, max_steps, false)
}

/// `stale_caches_at_start`: the object was re-equipped after construction, so values its constructor cached (and
/// every step refreshes) may differ from what loading recomputes; before the first step only behaviour is compared
fn checkpoints_opt<S: Sim>(ctx: &mut Ctx, sim0: &S, max_steps: usize, stale_caches_at_start: bool) {
    // uninterrupted reference
    // count the steps that succeed, then build the reference from exactly those steps (a failing
    // step attempt half-updates published limits and is not part of any completed trajectory)
    let mut probe = sim0.clone();
    // did the uninterrupted run stop because a step failed (as opposed to finishing or reaching the budget)?
    // (taken from the first attempt of that step: a failed attempt half-updates the object, a second one may differ)
    let (total, how) = run_to_end_how(&mut probe, max_steps);
    let stopped_by_error = how == Some(true);
    let mut reference = sim0.clone();
    run_to_end(&mut reference, total);
    let refv = yv(&reference);
    ctx.count(&format!("obs.sim_runs.{}", S::NAME));
    if total == 0 {
        return;
    }
    // every step index as a checkpoint position
    let mut cur = sim0.clone();
    for c in 0..=total {
        if c > 0 {
            let _ = cur.step_once();
        }
        let state = if c == 0 { if stale_caches_at_start { "before first step (constructor caches not yet refreshed)".to_string() } else { "before first step".to_string() } } else { format!("after {c} of {total} steps") };
        for (f, mut y) in roundtrip(ctx, S::NAME, &state, &cur) {
            ctx.count("obs.checkpoints");
            // the resumed copy runs exactly the steps the uninterrupted run still had to do
            let done = run_to_end(&mut y, total - c);
            if done != total - c {
                ctx.violate("resume_equals_uninterrupted", &format!("C17:{f}:resume_stops_early:{}", S::NAME),
                    format!("{} saved {state} as {f}: the resumed copy stopped after {done} of the remaining {} steps", S::NAME, total - c), json!({"checkpoint": c, "total_steps": total, "format": f}));
            }
            // ... and ends the same way: where the uninterrupted run was stopped by a failing step, the resumed
            // copy fails at that step too, and where it was not, the resumed copy does not fail either
            if done == total - c && how.is_some() {
                let mut probe_y = y.clone();
                let fails = matches!(probe_y.step_once(), Err(_));
                ctx.count("obs.resumed_runs_probed_at_the_end_of_the_original");
                if fails != stopped_by_error {
                    ctx.violate("resume_equals_uninterrupted", &format!("C17:{f}:resume_ends_differently:{}", S::NAME),
                        format!("{} saved {state} as {f}: after the {total} steps of the uninterrupted run the next step {} in the original but {} in the resumed copy", S::NAME, if stopped_by_error { "fails" } else { "does not fail" }, if fails { "fails" } else { "does not fail" }),
                        json!({"checkpoint": c, "total_steps": total, "format": f}));
                }
            }
            let yv_ = yv(&y);
            let ok = if f == "json" { y_approx(&refv, &yv_, 1e-9) } else { y_approx(&refv, &yv_, 0.0) };
            if !ok {
                ctx.violate("resume_equals_uninterrupted", &format!("C17:{f}:resume_differs:{}", S::NAME),
                    format!("{} saved {state} as {f} and resumed ends differently from the uninterrupted run; first difference: {}", S::NAME, y_diff(&refv, &yv_, if f == "json" { 1e-9 } else { 0.0 }, String::new()).unwrap_or_default()), json!({"checkpoint": c, "total_steps": total, "format": f}));
            }
        }
    }
}

fn short_power_trace(rng: &mut Rng, rating: f64, n: usize, neg: bool) -> PowerTrace {
    let mut t = vec![0.0];
    let mut p = vec![0.0];
    for k in 1..=n {
        t.push(t[k - 1] + if rng.chance(0.5) { 1.0 } else { rng.lrange(0.2, 3.0) });
        p.push(rating * rng.range(if neg { -0.05 } else { 0.0 }, 0.08));
    }
    let len = t.len();
    PowerTrace::new(t, p, vec![Some(true); len])
}

/// a state of charge outside the [min_soc, max_soc] window (valid: e.g. after the window was narrowed)
fn off_window_soc(r: &mut ReversibleEnergyStorage, rng: &mut Rng) {
    let (lo, hi) = (r.min_soc.value, r.max_soc.value);
    let above = hi < 0.999 && (rng.chance(0.7) || lo <= 0.001);
    r.state.soc = uc::R * if above { hi + (1.0 - hi) * rng.range(0.2, 1.0) } else { lo * rng.range(0.0, 0.8) };
}

fn mid_soc(l: &mut Locomotive) {
    if let Some(r) = l.reversible_energy_storage_mut() {
        r.state.soc = uc::R * ((r.min_soc.value + r.max_soc.value) / 2.0);
    }
}

pub fn run_c17(ctx: &mut Ctx, rng: &mut Rng, _t: bool) {
    let which = ctx.case % 13;
    let interval = *rng.pick(&[None, Some(1), Some(3)]);
    match which {
        0 => {
            // components: default and generated
            roundtrip(ctx, "FuelConverter", "default", &FuelConverter::default());
            roundtrip(ctx, "Generator", "default", &Generator::default());
            roundtrip(ctx, "ElectricDrivetrain", "default", &ElectricDrivetrain::default());
            roundtrip(ctx, "ReversibleEnergyStorage", "default", &ReversibleEnergyStorage::default());
            roundtrip(ctx, "FuelConverter", "generated", &gp::fuel_converter(rng));
            roundtrip(ctx, "Generator", "generated", &gp::generator(rng, 1e6));
            roundtrip(ctx, "ElectricDrivetrain", "generated", &gp::edrv(rng, 2e6));
            roundtrip(ctx, "ReversibleEnergyStorage", "generated", &gp::res(rng));
            let mut r = gp::res(rng);
            off_window_soc(&mut r, rng);
            roundtrip(ctx, "ReversibleEnergyStorage", "generated, soc outside window", &r);
            let mut r = ReversibleEnergyStorage::default();
            r.max_soc = uc::R * 0.8;
            off_window_soc(&mut r, rng);
            roundtrip(ctx, "ReversibleEnergyStorage", "default, window narrowed", &r);
        }
        1 => {
            roundtrip(ctx, "ConventionalLoco", "default", &ConventionalLoco::default());
            roundtrip(ctx, "BatteryElectricLoco", "default", &BatteryElectricLoco::default());
            roundtrip(ctx, "HybridLoco", "default", &HybridLoco::default());
            roundtrip(ctx, "DummyLoco", "default", &DummyLoco::default());
            roundtrip(ctx, "Locomotive(conventional)", "default", &Locomotive::default());
            roundtrip(ctx, "Locomotive(battery)", "default", &Locomotive::default_battery_electric_loco());
            roundtrip(ctx, "Locomotive(hybrid)", "default", &Locomotive::default_hybrid_electric_loco());
            // a dummy locomotive carries no mass of its own
            let mut dv = serde_json::to_value(Locomotive::default()).unwrap();
            dv["loco_type"] = serde_json::to_value(PowertrainType::DummyLoco(DummyLoco::default())).unwrap();
            dv["mass"] = json!(null);
            match Locomotive::from_json(dv.to_string()) {
                Ok(d) => {
                    roundtrip(ctx, "Locomotive(dummy)", "default", &d);
                }
                Err(_) => ctx.count("obs.dummy_loco_not_constructible"),
            }
            let kk = if rng.chance(0.5) { Kind::Conv } else { Kind::Bel };
            roundtrip(ctx, "Locomotive", "generated", &gp::locomotive(rng, kk));
            let mut lb = gp::locomotive(rng, Kind::Bel);
            if let Some(r) = lb.reversible_energy_storage_mut() {
                off_window_soc(r, rng);
            }
            roundtrip(ctx, "Locomotive(battery)", "generated, soc outside window", &lb);
            // limits switched off (a non-default flag that must survive a round trip)
            let mut lo = gp::locomotive(rng, kk);
            lo.assert_limits = false;
            roundtrip(ctx, "Locomotive", "generated, assert_limits off", &lo);
            let mut co = gp::consist(rng, 3).0;
            co.set_assert_limits(false);
            roundtrip(ctx, "Consist", "generated, assert_limits off", &co);
            roundtrip(ctx, "Consist", "default", &Consist::default());
            let n = rng.usize(1, 5);
            roundtrip(ctx, "Consist", "generated", &gp::consist(rng, n).0);
        }
        2 => {
            roundtrip(ctx, "PowerTrace", "default", &PowerTrace::default());
            roundtrip(ctx, "SpeedTrace", "default", &SpeedTrace::default());
            let (t, v) = gt::speed_trace(rng, 5000.0, 20.0, 50);
            roundtrip(ctx, "SpeedTrace", "generated", &SpeedTrace::new(t, v, if rng.chance(0.5) { Some(vec![true; 1]) } else { None }));
            roundtrip(ctx, "RailVehicle", "shipped/perturbed", &gt::rail_vehicle(rng));
            let spec = gt::train(rng, &[altrios_core::track::TrainType::Freight], 1500.0, 0.01);
            roundtrip(ctx, "TrainConfig", "generated", &spec.config);
            roundtrip(ctx, "TrainConfig", "valid()", &{
                use altrios_core::validate::Valid;
                TrainConfig::valid()
            });
            let b = TrainSimBuilder::new("id".into(), spec.config.clone(), spec.consist.clone(), Some("A".into()), Some("B".into()), if rng.chance(0.5) { Some(InitTrainState::default()) } else { Some(InitTrainState::new(Some(uc::S * 5.0), Some(uc::M * 100.0), Some(uc::MPS * 1.0))) });
            roundtrip(ctx, "TrainSimBuilder", "generated", &b);
            roundtrip(ctx, "InitTrainState", "default", &InitTrainState::default());
            roundtrip(ctx, "FricBrake", "default", &SpeedLimitTrainSim::default().fric_brake);
            roundtrip(ctx, "Location", "generated", &gt::location("A", 3));
            roundtrip(ctx, "TimedLinkPath", "generated", &TimedLinkPath(vec![LinkIdxTime::new(altrios_core::track::LinkIdx::new(1), uc::S * 0.0), LinkIdxTime::new(altrios_core::track::LinkIdx::new(2), uc::S * 12.5)]));
            // boundary values of index types
            roundtrip(ctx, "TimedLinkPath", "boundary indices 0 and u32::MAX, time 0 and large", &TimedLinkPath(vec![LinkIdxTime::new(altrios_core::track::LinkIdx::new(0), uc::S * 0.0), LinkIdxTime::new(altrios_core::track::LinkIdx::new(u32::MAX), uc::S * 1.0e9), LinkIdxTime::new(altrios_core::track::LinkIdx::new(u32::MAX - 1), uc::S * 86400.0)]));
            roundtrip(ctx, "TrainParams", "valid()", &{
                use altrios_core::validate::Valid;
                TrainParams::valid()
            });
        }
        3 | 4 => {
            // track objects
            let o = NetOpts::path_default(rng);
            let net = gn::network(rng, &o);
            if gn::validate(&net.links).is_err() {
                return;
            }
            roundtrip(ctx, "Network", "generated", &Network(net.links.clone()));
            let li = rng.usize(1, net.links.len() - 1);
            roundtrip::<Link>(ctx, "Link", "generated", &net.links[li]);
            let tp = crate::mon::path::train_params(rng, &net.train_types);
            let route = net.route(rng, false, true);
            if let Ok(mut p) = crate::mon::path::build_path(&net.links, &route, &tp, 0) {
                roundtrip(ctx, "PathTpc", "built, not finished", &p);
                p.finish();
                roundtrip(ctx, "PathTpc", "finished", &p);
            }
            roundtrip(ctx, "PathTpc", "valid()", &{
                use altrios_core::validate::Valid;
                PathTpc::valid()
            });
        }
        5 | 6 => {
            let kind = if rng.chance(0.5) { Kind::Conv } else { Kind::Bel };
            let mut l = if rng.chance(0.5) { gp::locomotive(rng, kind) } else if kind == Kind::Conv { Locomotive::default() } else { Locomotive::default_battery_electric_loco() };
            mid_soc(&mut l);
            // a battery that starts above its window and is only discharged
            let high = kind == Kind::Bel && rng.chance(0.3);
            if high {
                if let Some(r) = l.reversible_energy_storage_mut() {
                    if r.max_soc.value < 0.999 {
                        r.state.soc = uc::R * (r.max_soc.value + (1.0 - r.max_soc.value) * rng.range(0.3, 1.0));
                        ctx.count("obs.checkpoint_runs_starting_above_soc_window");
                    }
                }
            }
            let rating = l.get_pwr_rated().value;
            let n = rng.usize(8, 40);
            let sim = LocomotiveSimulation::new(l, short_power_trace(rng, rating, n, kind == Kind::Bel && !high), interval);
            checkpoints(ctx, &sim, 100);
            roundtrip(ctx, "LocomotiveSimulation", "default", &LocomotiveSimulation::default());
        }
        7 | 8 => {
            let n_units = rng.usize(1, 4);
            let (mut con, _k) = gp::consist(rng, n_units);
            con.loco_vec.iter_mut().for_each(mid_soc);
            let rating: f64 = con.loco_vec.iter().map(|l| l.get_pwr_rated().value).sum();
            let n = rng.usize(8, 30);
            // a third of the consists were first built around one placeholder unit and then given their real units
            // (set_loco_vec), and are braked hard: limits cached at construction must not outlive the units
            let re_equipped = rng.chance(0.33);
            let trace = if re_equipped {
                let pdct = con.pdct.clone();
                let mut rebuilt = Consist::new(vec![Locomotive::default()], None, pdct);
                rebuilt.set_loco_vec(con.loco_vec.clone());
                con = rebuilt;
                ctx.count("obs.checkpointed_consists_re-equipped_through_set_loco_vec");
                let mut t = vec![0.0];
                let mut p = vec![0.0];
                for k in 1..=n {
                    t.push(t[k - 1] + 1.0);
                    p.push(rating * if k % 3 == 0 { -rng.range(0.2, 0.9) } else { rng.range(0.0, 0.05) });
                }
                let len = t.len();
                PowerTrace::new(t, p, vec![Some(true); len])
            } else {
                short_power_trace(rng, rating, n, false)
            };
            if !re_equipped && rng.chance(0.25) {
                // a consist that has already worked an earlier trip (its own step counter and energies are not at
                // their initial values) is put into a new simulation; what the file says about either counter is
                // what must come back
                let n_prev = rng.usize(3, 12);
                let prev_trace = short_power_trace(rng, rating, n_prev, false);
                let mut prev = ConsistSimulation::new(con.clone(), prev_trace, interval);
                let _ = prev.walk();
                con = prev.loco_con;
                ctx.count("obs.checkpointed_consists_carried_over_from_an_earlier_trip");
            }
            let sim = ConsistSimulation::new(con, trace, interval);
            checkpoints_opt(ctx, &sim, 100, re_equipped);
            roundtrip(ctx, "ConsistSimulation", "default", &ConsistSimulation::default());
        }
        9 | 10 => {
            // set-speed train sim
            if let Some(b) = mt::build_case(rng, 400.0) {
                let tp = match b.spec.config.make_train_params() {
                    Ok(t) => t,
                    Err(_) => return,
                };
                let nsteps = rng.usize(10, 40);
                let (time, speed) = gt::speed_trace(rng, b.route_len - b.spec.length - 5.0, tp.speed_max.value.min(30.0), nsteps);
                if time.len() < 3 {
                    return;
                }
                let init = InitTrainState::new(Some(uc::S * time[0]), None, Some(uc::MPS * speed[0]));
                let builder = TrainSimBuilder::new("t".into(), b.spec.config.clone(), b.spec.consist.clone(), None, None, Some(init));
                if let Ok(sim) = builder.make_set_speed_train_sim(&b.net.links, &b.route, SpeedTrace::new(time, speed, None), interval) {
                    roundtrip(ctx, "TrainRes", "built", &sim.train_res);
                    checkpoints(ctx, &sim, 100);
                }
            }
            roundtrip(ctx, "SetSpeedTrainSim", "default", &SetSpeedTrainSim::default());
        }
        12 => {
            // estimated-time networks (and the timed link paths dispatch makes of them)
            if let Some(inst) = crate::gen::dispatch::instance(rng, 2) {
                for t in inst.trains.iter().take(1) {
                    if let Ok(Ok((net, _))) = crate::panics::guard(std::panic::AssertUnwindSafe(|| altrios_core::meet_pass::est_times::make_est_times(t.sim.clone(), &inst.links))) {
                        ctx.count("obs.est_time_nets_round_tripped");
                        roundtrip(ctx, "EstTimeNet", "built", &net);
                    }
                }
            }
        }
        _ => {
            if let Some(b) = mt::build_case(rng, 600.0) {
                let lm = gt::location_map(&b.net);
                let (o, d) = if b.reverse { ("Br", "Ar") } else { ("A", "B") };
                let builder = TrainSimBuilder::new("t".into(), b.spec.config.clone(), b.spec.consist.clone(), Some(o.into()), Some(d.into()), None);
                if let Ok(mut sim) = builder.make_speed_limit_train_sim(&lm, interval, Some(7), Some(2030)) {
                    if sim.extend_path(&b.net.links, &b.route).is_ok() {
                        if rng.chance(0.5) {
                            sim.finish();
                        }
                        checkpoints(ctx, &sim, 60);
                    }
                }
            }
            roundtrip(ctx, "SpeedLimitTrainSim", "valid()", &{
                use altrios_core::validate::Valid;
                SpeedLimitTrainSim::valid()
            });
            roundtrip(ctx, "SpeedLimitTrainSim", "default", &SpeedLimitTrainSim::default());
        }
    }
    if ctx.rep.samples.len() < 3 {
        ctx.rep.sample(json!({"group": which, "formats": FORMATS, "what": "round trip + idempotence + value equality for every listed type/state; every step index of the short simulation as checkpoint x format, resumed run compared with the uninterrupted one"}));
    }
}
