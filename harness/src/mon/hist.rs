//! C19: histories and step counters stay aligned through the whole object tree, for every
//! simulation kind, save interval, consist composition, run length, incl. runs ending with an error.
use crate::gen::powertrain::{self as gp, Kind};
use crate::mon::train::{self as mt, check_tree, consist_tree, loco_tree, Extension, TreeEntry};
use crate::panics;
use crate::report::Ctx;
use crate::rng::{hash_f64s, mix, Rng};
use altrios_core::consist::locomotive::PowertrainType;
use altrios_core::prelude::*;
use serde_json::json;
use std::panic::AssertUnwindSafe;

pub fn pick_interval(rng: &mut Rng) -> Option<usize> {
    *rng.pick(&[None, Some(1), Some(1), Some(2), Some(3), Some(7), Some(50), Some(100000)])
}

/// modest power trace (fraction of rating after a ramp) with an optional over-limit demand at `fail_at`
fn power_trace(rng: &mut Rng, rating: f64, n: usize, fail_at: Option<usize>, allow_neg: bool) -> PowerTrace {
    let mut t = vec![0.0];
    let mut p = vec![0.0];
    let irregular = rng.chance(0.5);
    let mut level = 0.0f64;
    for k in 1..=n {
        let dt = if irregular { rng.lrange(0.2, 3.0) } else { 1.0 };
        t.push(t[k - 1] + dt);
        if k % 25 == 0 {
            level = rng.range(if allow_neg { -0.2 } else { 0.0 }, 0.5);
        }
        let ramp = (k as f64 * 0.004).min(1.0);
        let mut v = level * ramp * rating;
        if Some(k) == fail_at {
            v = rating * 50.0;
        }
        p.push(v);
    }
    let len = t.len();
    PowerTrace::new(t, p, vec![Some(true); len])
}

fn loco_rating(l: &Locomotive) -> f64 {
    match &l.loco_type {
        PowertrainType::ConventionalLoco(c) => c.fc.pwr_out_max.value.min(c.gen.pwr_out_max.value).min(c.edrv.pwr_out_max.value),
        PowertrainType::BatteryElectricLoco(b) => b.res.pwr_out_max.value.min(b.edrv.pwr_out_max.value),
        PowertrainType::HybridLoco(h) => h.fc.pwr_out_max.value.min(h.edrv.pwr_out_max.value) * 0.3,
        _ => 1e6,
    }
}

fn loco_sim_run(ctx: &mut Ctx, rng: &mut Rng) {
    let kind = if rng.chance(0.5) { Kind::Conv } else { Kind::Bel };
    // all locomotive kinds: a quarter of the runs use the (shipped default) hybrid
    let hybrid = rng.chance(0.25);
    let mut loco = if hybrid { Locomotive::default_hybrid_electric_loco() } else if rng.chance(0.5) { gp::locomotive(rng, kind) } else if kind == Kind::Conv { Locomotive::default() } else { Locomotive::default_battery_electric_loco() };
    if hybrid {
        ctx.count("obs.hybrid_loco_sims");
    }
    if let Some(r) = loco.reversible_energy_storage_mut() {
        let mid = (r.min_soc.value + r.max_soc.value) / 2.0;
        r.state.soc = altrios_core::uc::R * mid;
    }
    let n = rng.usize(1, 500);
    let fail_at = if rng.chance(0.3) { Some(rng.usize(1, n)) } else { None };
    let trace = power_trace(rng, loco_rating(&loco), n, fail_at, kind == Kind::Bel);
    let a = pick_interval(rng);
    let bint = pick_interval(rng);
    // interval given at construction, optionally changed through the top-level setter before the run
    let mut sim = LocomotiveSimulation::new(loco, trace, a);
    let interval = if rng.chance(0.5) {
        sim.set_save_interval(bint);
        bint
    } else {
        a
    };
    let r = panics::guard(AssertUnwindSafe(|| sim.walk()));
    if r.is_err() {
        ctx.count("obs.loco_sim_panic");
        return;
    }
    let ended_err = matches!(r, Ok(Err(_)));
    ctx.count(if ended_err { "obs.loco_sim_ended_with_err" } else { "obs.loco_sim_ok" });
    let steps_done = sim.i - 1;
    let mut tree: Vec<TreeEntry> = vec![];
    loco_tree("loco_unit", &sim.loco_unit, &mut tree);
    check_tree(ctx, "LocomotiveSimulation::walk", &tree, interval, steps_done, true, json!({"kind": format!("{kind:?}"), "trace_len": n + 1, "fail_at": fail_at, "ended_with_error": ended_err}));
    if !matches!(interval, None | Some(1)) {
        ctx.count("obs.nontrivial_interval_runs");
    }
    ctx.rep.sample(json!({"run": "LocomotiveSimulation::walk", "kind": format!("{kind:?}"), "interval": interval, "completed_steps": steps_done, "ended_with_error": ended_err}));
}

fn consist_sim_run(ctx: &mut Ctx, rng: &mut Rng) {
    let n_units = rng.usize(1, 6);
    let (mut con, kinds) = gp::consist(rng, n_units);
    for l in con.loco_vec.iter_mut() {
        if let Some(r) = l.reversible_energy_storage_mut() {
            let mid = (r.min_soc.value + r.max_soc.value) / 2.0;
            r.state.soc = altrios_core::uc::R * mid;
        }
    }
    let rating: f64 = con.loco_vec.iter().map(loco_rating).sum();
    let n = rng.usize(1, 400);
    let fail_at = if rng.chance(0.3) { Some(rng.usize(1, n)) } else { None };
    let trace = power_trace(rng, rating, n, fail_at, false);
    let a = pick_interval(rng);
    let bint = pick_interval(rng);
    let mut sim = ConsistSimulation::new(con, trace, a);
    let interval = if rng.chance(0.5) {
        sim.set_save_interval(bint);
        bint
    } else {
        a
    };
    let r = panics::guard(AssertUnwindSafe(|| sim.walk()));
    if r.is_err() {
        ctx.count("obs.consist_sim_panic");
        return;
    }
    let ended_err = matches!(r, Ok(Err(_)));
    ctx.count(if ended_err { "obs.consist_sim_ended_with_err" } else { "obs.consist_sim_ok" });
    let steps_done = sim.i - 1;
    let mut tree: Vec<TreeEntry> = vec![];
    consist_tree("loco_con", &sim.loco_con, &mut tree);
    check_tree(ctx, "ConsistSimulation::walk", &tree, interval, steps_done, true, json!({"kinds": kinds.iter().map(|k| format!("{k:?}")).collect::<Vec<_>>(), "trace_len": n + 1, "fail_at": fail_at, "ended_with_error": ended_err}));
    let comp = kinds.iter().any(|k| *k == Kind::Bel) && kinds.iter().any(|k| *k == Kind::Conv);
    if !matches!(interval, None | Some(1)) && comp {
        ctx.rep.nontrivial(mix(hash_f64s(&[interval.unwrap_or(0) as f64, steps_done as f64, n_units as f64, rating])));
    }
    ctx.rep.sample(json!({"run": "ConsistSimulation::walk", "units": n_units, "interval": interval, "completed_steps": steps_done, "ended_with_error": ended_err}));
}

pub fn run_c19(ctx: &mut Ctx, rng: &mut Rng, _t: bool) {
    match rng.usize(0, 9) {
        0 | 1 => loco_sim_run(ctx, rng),
        2 | 3 | 4 => consist_sim_run(ctx, rng),
        5 | 6 => {
            let i = pick_interval(rng);
            let neg = rng.chance(0.3);
            mt::set_speed_run(ctx, rng, i, neg)
        }
        _ => {
            let i = pick_interval(rng);
            let e = *rng.pick(&[Extension::Whole, Extension::Timed, Extension::LinkByLink]);
            mt::speed_limit_run(ctx, rng, i, e)
        }
    }
}
