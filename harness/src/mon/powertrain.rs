//! Shared workload + oracles for C01 (energy ledger), C08 (second law / engine off),
//! C09 (limits), C10 (consist split). One adversarial run evaluates all clauses; a clause only
//! raises a violation when it belongs to the property being checked (`ctx.prop`), so evidence and
//! verdicts stay per property while the executions are shared.
use crate::gen::powertrain::{self as gp, Kind};
use crate::report::{close, jf, Ctx};
use crate::rng::{hash_f64s, mix, Rng};
use altrios_core::consist::locomotive::PowertrainType;
use altrios_core::consist::{LocoTrait, PowerDistributionControlType};
use altrios_core::prelude::*;
use altrios_core::uc;
use serde_json::{json, Value};

const REL: f64 = 1e-9; // single-step identities
const RELC: f64 = 1e-7; // cumulative identities
const TOL: f64 = 1e-3; // the implementation's declared acceptance band
const SLACK: f64 = 1e-6;

#[derive(Clone, Copy, Debug)]
pub struct UnitSnap {
    pub kind: Kind,
    pub fc: Option<FuelConverterState>,
    pub gen: Option<GeneratorState>,
    pub res: Option<ReversibleEnergyStorageState>,
    pub edrv: ElectricDrivetrainState,
    pub loco: LocomotiveState,
}

pub fn snap(l: &Locomotive) -> UnitSnap {
    match &l.loco_type {
        PowertrainType::ConventionalLoco(c) => UnitSnap {
            kind: Kind::Conv,
            fc: Some(c.fc.state),
            gen: Some(c.gen.state),
            res: None,
            edrv: c.edrv.state,
            loco: l.state,
        },
        PowertrainType::BatteryElectricLoco(b) => UnitSnap {
            kind: Kind::Bel,
            fc: None,
            gen: None,
            res: Some(b.res.state),
            edrv: b.edrv.state,
            loco: l.state,
        },
        _ => panic!("harness: unsupported loco type in powertrain monitor"),
    }
}

/// independent running sums of power×dt (the shadow ledger)
#[derive(Clone, Debug, Default)]
pub struct Shadow {
    pub v: Vec<(&'static str, f64, f64)>, // (name, signed sum, abs sum)
}
impl Shadow {
    fn acc(&mut self, name: &'static str, p: f64, dt: f64) -> (f64, f64) {
        for e in self.v.iter_mut() {
            if e.0 == name {
                e.1 += p * dt;
                e.2 += (p * dt).abs();
                return (e.1, e.2);
            }
        }
        self.v.push((name, p * dt, (p * dt).abs()));
        (p * dt, (p * dt).abs())
    }
}

fn unit_static(l: &Locomotive) -> Value {
    match &l.loco_type {
        PowertrainType::ConventionalLoco(c) => json!({
            "kind":"conv","fc_rating_w":c.fc.pwr_out_max.value,"fc_init_w":c.fc.pwr_out_max_init.value,
            "fc_lag_s":c.fc.pwr_ramp_lag.value,"fc_frac":c.fc.pwr_out_frac_interp,"fc_eta":c.fc.eta_interp,
            "fc_idle_w":c.fc.pwr_idle_fuel.value,
            "gen_rating_w":c.gen.pwr_out_max.value,"gen_frac":c.gen.pwr_out_frac_interp,"gen_eta":c.gen.eta_interp,
            "edrv_rating_w":c.edrv.pwr_out_max.value,"edrv_frac":c.edrv.pwr_out_frac_interp,"edrv_eta":c.edrv.eta_interp,
            "aux_offset_w":l.pwr_aux_offset.value,"aux_coeff":l.pwr_aux_traction_coeff.value}),
        PowertrainType::BatteryElectricLoco(b) => json!({
            "kind":"bel","res_rating_w":b.res.pwr_out_max.value,"res_capacity_j":b.res.energy_capacity.value,
            "min_soc":b.res.min_soc.value,"max_soc":b.res.max_soc.value,
            "soc_lo_ramp_start":b.res.soc_lo_ramp_start.map(|x|x.value),"soc_hi_ramp_start":b.res.soc_hi_ramp_start.map(|x|x.value),
            "soc0":b.res.state.soc.value,"temperature_c":b.res.state.temperature_celsius,
            "grid_dims":[b.res.eta_interp_grid[0].len(),b.res.eta_interp_grid[1].len(),b.res.eta_interp_grid[2].len()],
            "edrv_rating_w":b.edrv.pwr_out_max.value,"edrv_frac":b.edrv.pwr_out_frac_interp,"edrv_eta":b.edrv.eta_interp,
            "aux_offset_w":l.pwr_aux_offset.value,"aux_coeff":l.pwr_aux_traction_coeff.value}),
        _ => json!(null),
    }
}

fn const_eta(v: &[f64]) -> bool {
    v.iter().all(|x| *x == v[0])
}

/// true when the unit's generator and drivetrain maps are constant so that the limit published at
/// the wheel is the exact image of the component limits (DESIGN C09 note)
fn chain_exact(l: &Locomotive) -> bool {
    match &l.loco_type {
        PowertrainType::ConventionalLoco(c) => const_eta(&c.gen.eta_interp) && const_eta(&c.edrv.eta_interp),
        PowertrainType::BatteryElectricLoco(b) => const_eta(&b.edrv.eta_interp),
        _ => false,
    }
}

fn emit(ctx: &mut Ctx, prop: &str, clause: &str, sig: &str, msg: String, detail: Value) {
    if ctx.prop == prop {
        ctx.violate(clause, sig, msg, detail);
    }
}

fn obs(ctx: &mut Ctx, prop: &str, key: &str) {
    if ctx.prop == prop {
        ctx.count(key);
    }
}

pub struct StepInfo<'a> {
    pub who: String,
    pub step: usize,
    pub demand: f64,
    pub dt: f64,
    pub engine_on: bool,
    pub in_consist: bool,
    pub stat: &'a dyn Fn() -> Value,
}

fn det(si: &StepInfo, extra: Value) -> Value {
    json!({"who": si.who, "step": si.step, "demand_w": jf(si.demand), "dt_s": si.dt,
           "engine_on": si.engine_on, "unit": (si.stat)(), "values": extra})
}

/// All per-unit clauses after an accepted step.
#[allow(clippy::too_many_arguments)]
pub fn check_unit(
    ctx: &mut Ctx,
    l: &Locomotive,
    pre: &UnitSnap,
    publ: &UnitSnap,
    post: &UnitSnap,
    sh: &mut Shadow,
    si: &StepInfo,
) {
    let dt = si.dt;
    let e = post.edrv;
    let lo = post.loco;
    let mut losses = e.pwr_loss.value;
    let mut source = 0.0; // fuel + chemical
    let mut aux_supplied = 0.0;
    let ck = |ctx: &mut Ctx, prop: &str, clause: &str, a: f64, b: f64, rel: f64, scale: f64, what: &str| {
        obs(ctx, prop, &format!("obs.{clause}"));
        if !close(a, b, rel, scale) {
            emit(ctx, prop, clause, &format!("{prop}:{clause}"),
                format!("{what}: {a:e} vs {b:e} (scale {scale:e})"),
                det(si, json!({"lhs": jf(a), "rhs": jf(b)})));
        }
    };
    // ---------------- C01: hand-offs and component balances
    if let (Some(fc), Some(gen)) = (post.fc, post.gen) {
        let s = fc.pwr_fuel.value.abs();
        ck(ctx, "C01", "fc_balance", fc.pwr_fuel.value, fc.pwr_brake.value + fc.pwr_loss.value, REL, s, "fc fuel = brake + loss");
        ck(ctx, "C01", "shaft_handoff", fc.pwr_brake.value, gen.pwr_mech_in.value, 1e-15, 0.0, "fc.pwr_brake = gen.pwr_mech_in");
        ck(ctx, "C01", "gen_balance", gen.pwr_mech_in.value,
            gen.pwr_elec_prop_out.value + gen.pwr_elec_aux.value + gen.pwr_loss.value, REL, gen.pwr_mech_in.value.abs(), "gen in = prop + aux + loss");
        ck(ctx, "C01", "gen_edrv_handoff", gen.pwr_elec_prop_out.value, e.pwr_elec_prop_in.value, 1e-15, 0.0, "gen.prop_out = edrv.elec_in");
        losses += fc.pwr_loss.value + gen.pwr_loss.value;
        source += fc.pwr_fuel.value;
        aux_supplied += gen.pwr_elec_aux.value;
        // aux supplied equals aux demanded while the engine is on
        if si.engine_on {
            ck(ctx, "C01", "aux_supplied_conv", gen.pwr_elec_aux.value, lo.pwr_aux.value, 1e-15, 0.0, "gen aux = unit aux demand");
        }
    }
    if let Some(r) = post.res {
        let pr = pre.res.unwrap();
        ck(ctx, "C01", "res_elec_split", r.pwr_out_electrical.value, r.pwr_out_propulsion.value + r.pwr_aux.value, REL,
            r.pwr_out_propulsion.value.abs().max(r.pwr_aux.value.abs()), "res elec = prop + aux");
        ck(ctx, "C01", "res_balance", r.pwr_out_chemical.value - r.pwr_out_electrical.value, r.pwr_loss.value, REL,
            r.pwr_out_chemical.value.abs().max(r.pwr_out_electrical.value.abs()), "res chem - elec = loss");
        ck(ctx, "C01", "res_edrv_handoff", r.pwr_out_propulsion.value, e.pwr_elec_prop_in.value, 1e-15, 0.0, "res.prop = edrv.elec_in");
        let cap = match &l.loco_type {
            PowertrainType::BatteryElectricLoco(b) => b.res.energy_capacity.value,
            _ => unreachable!(),
        };
        let want = pr.soc.value - r.pwr_out_chemical.value * dt / cap;
        obs(ctx, "C01", "obs.soc_update");
        if !(r.soc.value == want || (r.soc.value - want).abs() <= 4.0 * f64::EPSILON * want.abs().max(1.0)) {
            emit(ctx, "C01", "soc_update", "C01:soc_update",
                format!("soc {} != prev - chem*dt/capacity {}", r.soc.value, want),
                det(si, json!({"soc_prev": pr.soc.value, "soc": r.soc.value, "chem_w": r.pwr_out_chemical.value, "capacity_j": cap})));
        }
        losses += r.pwr_loss.value;
        source += r.pwr_out_chemical.value;
        aux_supplied += r.pwr_aux.value;
        if e.pwr_elec_prop_in.value > 0.0 {
            ck(ctx, "C01", "aux_supplied_bel", r.pwr_aux.value, lo.pwr_aux.value, 1e-15, 0.0, "res aux = unit aux demand (traction)");
        } else if r.pwr_aux.value > lo.pwr_aux.value || r.pwr_aux.value < 0.0 {
            emit(ctx, "C01", "aux_supplied_bel", "C01:aux_supplied_bel", format!("curtailed aux {} outside [0, demand {}]", r.pwr_aux.value, lo.pwr_aux.value), det(si, json!({})));
        } else {
            // while braking / coasting the battery serves the auxiliaries up to what its published propulsion limit
            // leaves once the regenerated power is counted in: the load is curtailed only as far as that limit demands
            let avail = (r.pwr_prop_out_max.value - e.pwr_elec_prop_in.value).max(0.0);
            let want = lo.pwr_aux.value.min(avail);
            obs(ctx, "C01", "obs.aux_supplied_while_braking");
            if r.pwr_aux.value < lo.pwr_aux.value {
                obs(ctx, "C01", "obs.aux_curtailed_while_braking");
            }
            if !close(r.pwr_aux.value, want, 1e-12, lo.pwr_aux.value) {
                emit(ctx, "C01", "aux_supplied_bel", "C01:aux_curtailed_without_need", format!("battery serves {} W of the {} W auxiliary load while braking although its published limit {} W and the regenerated {} W leave {} W", r.pwr_aux.value, lo.pwr_aux.value, r.pwr_prop_out_max.value, -e.pwr_elec_prop_in.value, avail),
                    det(si, json!({"pwr_prop_out_max": r.pwr_prop_out_max.value, "pwr_elec_prop_in": e.pwr_elec_prop_in.value})));
            }
        }
    }
    // drivetrain, both directions (signed loss)
    ck(ctx, "C01", "edrv_balance", e.pwr_elec_prop_in.value - e.pwr_mech_prop_out.value, e.pwr_loss.value, REL,
        e.pwr_elec_prop_in.value.abs().max(e.pwr_mech_prop_out.value.abs()), "edrv elec_in - mech_out = loss");
    ck(ctx, "C01", "wheel", lo.pwr_out.value, e.pwr_mech_prop_out.value - e.pwr_mech_dyn_brake.value, REL,
        e.pwr_mech_prop_out.value.abs().max(e.pwr_mech_dyn_brake.value.abs()), "unit pwr_out = mech_prop_out - dyn_brake");
    ck(ctx, "C01", "wheel_is_demand", lo.pwr_out.value, si.demand, 1e-8, 0.0, "unit pwr_out = demanded power");
    // unit ledger
    let rhs = lo.pwr_out.value + e.pwr_mech_dyn_brake.value + aux_supplied + losses;
    let scale = source.abs().max(lo.pwr_out.value.abs()).max(e.pwr_mech_dyn_brake.value.abs()).max(losses.abs());
    ck(ctx, "C01", "unit_ledger", source, rhs, REL, scale, "fuel + chemical = wheel + dyn brake + aux + losses");

    // ---------------- C01: cumulative energies against the shadow ledger
    {
        let mut cum = |ctx: &mut Ctx, name: &'static str, p: f64, field: f64| {
            let (s, a) = sh.acc(name, p, dt);
            obs(ctx, "C01", "obs.energy_prefix");
            if !close(field, s, RELC, a) {
                emit(ctx, "C01", "energy_accumulation", &format!("C01:energy_accumulation:{name}"),
                    format!("{name}: reported {field:e} vs shadow ledger {s:e}"),
                    det(si, json!({"field": name, "reported_j": jf(field), "shadow_j": jf(s)})));
            }
        };
        if let (Some(fc), Some(gen)) = (post.fc, post.gen) {
            cum(ctx, "fc.energy_fuel", fc.pwr_fuel.value, fc.energy_fuel.value);
            cum(ctx, "fc.energy_brake", fc.pwr_brake.value, fc.energy_brake.value);
            cum(ctx, "fc.energy_loss", fc.pwr_loss.value, fc.energy_loss.value);
            cum(ctx, "fc.energy_idle_fuel", fc.pwr_idle_fuel.value, fc.energy_idle_fuel.value);
            cum(ctx, "gen.energy_mech_in", gen.pwr_mech_in.value, gen.energy_mech_in.value);
            cum(ctx, "gen.energy_elec_prop_out", gen.pwr_elec_prop_out.value, gen.energy_elec_prop_out.value);
            cum(ctx, "gen.energy_elec_aux", gen.pwr_elec_aux.value, gen.energy_elec_aux.value);
            cum(ctx, "gen.energy_loss", gen.pwr_loss.value, gen.energy_loss.value);
        }
        if let Some(r) = post.res {
            cum(ctx, "res.energy_out_chemical", r.pwr_out_chemical.value, r.energy_out_chemical.value);
            cum(ctx, "res.energy_out_electrical", r.pwr_out_electrical.value, r.energy_out_electrical.value);
            cum(ctx, "res.energy_out_propulsion", r.pwr_out_propulsion.value, r.energy_out_propulsion.value);
            cum(ctx, "res.energy_aux", r.pwr_aux.value, r.energy_aux.value);
            cum(ctx, "res.energy_loss", r.pwr_loss.value, r.energy_loss.value);
        }
        cum(ctx, "edrv.energy_elec_prop_in", e.pwr_elec_prop_in.value, e.energy_elec_prop_in.value);
        cum(ctx, "edrv.energy_mech_prop_out", e.pwr_mech_prop_out.value, e.energy_mech_prop_out.value);
        cum(ctx, "edrv.energy_mech_dyn_brake", e.pwr_mech_dyn_brake.value, e.energy_mech_dyn_brake.value);
        cum(ctx, "edrv.energy_elec_dyn_brake", e.pwr_elec_dyn_brake.value, e.energy_elec_dyn_brake.value);
        cum(ctx, "edrv.energy_loss", e.pwr_loss.value, e.energy_loss.value);
        cum(ctx, "loco.energy_out", lo.pwr_out.value, lo.energy_out.value);
        cum(ctx, "loco.energy_aux", lo.pwr_aux.value, lo.energy_aux.value);
    }

    // ---------------- C08: second law, monotone energies, dyn brake, engine off
    {
        let c8 = |ctx: &mut Ctx, clause: &str, ok: bool, msg: String, vals: Value| {
            obs(ctx, "C08", &format!("obs.{clause}"));
            if !ok {
                emit(ctx, "C08", clause, &format!("C08:{clause}"), msg, det(si, vals));
            }
        };
        let tolp = |x: f64| 1e-9 * x.abs() + 1e-9;
        let eta_ok = |x: f64| x > 0.0 && x <= 1.0 + 1e-12;
        if let (Some(fc), Some(gen)) = (post.fc, post.gen) {
            let pfc = pre.fc.unwrap();
            let pg = pre.gen.unwrap();
            if si.engine_on {
                c8(ctx, "fc_loss_nonneg", fc.pwr_loss.value >= -tolp(fc.pwr_fuel.value), format!("fc loss {}", fc.pwr_loss.value), json!({}));
                c8(ctx, "fc_eta_range", eta_ok(fc.eta.value), format!("fc eta {}", fc.eta.value), json!({}));
                c8(ctx, "fc_out_le_in", fc.pwr_brake.value <= fc.pwr_fuel.value + tolp(fc.pwr_fuel.value), format!("fc brake {} > fuel {}", fc.pwr_brake.value, fc.pwr_fuel.value), json!({}));
            }
            c8(ctx, "gen_loss_nonneg", gen.pwr_loss.value >= -tolp(gen.pwr_mech_in.value), format!("gen loss {}", gen.pwr_loss.value), json!({}));
            c8(ctx, "gen_eta_range", eta_ok(gen.eta.value), format!("gen eta {}", gen.eta.value), json!({}));
            c8(ctx, "gen_out_le_in", gen.pwr_elec_prop_out.value + gen.pwr_elec_aux.value <= gen.pwr_mech_in.value + tolp(gen.pwr_mech_in.value), "gen out > in".into(), json!({}));
            c8(ctx, "fuel_monotone", fc.energy_fuel.value >= pfc.energy_fuel.value, format!("energy_fuel {} -> {}", pfc.energy_fuel.value, fc.energy_fuel.value), json!({}));
            c8(ctx, "loss_monotone", fc.energy_loss.value >= pfc.energy_loss.value - tolp(fc.energy_loss.value) && gen.energy_loss.value >= pg.energy_loss.value - tolp(gen.energy_loss.value), "fc/gen energy_loss decreased".into(), json!({}));
            if !si.engine_on {
                obs(ctx, "C08", "obs.engine_off_step");
                c8(ctx, "engine_off_no_fuel", fc.pwr_fuel.value == 0.0 && fc.energy_fuel.value == pfc.energy_fuel.value,
                    format!("engine off but pwr_fuel = {} W, d(energy_fuel) = {} J", fc.pwr_fuel.value, fc.energy_fuel.value - pfc.energy_fuel.value),
                    json!({"pwr_fuel_w": fc.pwr_fuel.value, "pwr_idle_fuel_w": fc.pwr_idle_fuel.value}));
                c8(ctx, "engine_off_no_aux", lo.pwr_aux.value == 0.0 && gen.pwr_elec_aux.value == 0.0,
                    format!("engine off but aux = {} / gen aux = {}", lo.pwr_aux.value, gen.pwr_elec_aux.value), json!({}));
            }
        }
        if let Some(r) = post.res {
            let prr = pre.res.unwrap();
            c8(ctx, "res_loss_nonneg", r.pwr_loss.value >= -tolp(r.pwr_out_electrical.value), format!("res loss {}", r.pwr_loss.value), json!({}));
            c8(ctx, "res_eta_range", eta_ok(r.eta.value), format!("res eta {}", r.eta.value), json!({}));
            if r.pwr_out_electrical.value > 0.0 {
                c8(ctx, "res_out_le_in", r.pwr_out_electrical.value <= r.pwr_out_chemical.value + tolp(r.pwr_out_chemical.value), "res discharge elec > chem".into(), json!({}));
            } else {
                c8(ctx, "res_out_le_in", r.pwr_out_chemical.value.abs() <= r.pwr_out_electrical.value.abs() + tolp(r.pwr_out_electrical.value), "res charge |chem| > |elec|".into(), json!({}));
            }
            c8(ctx, "loss_monotone", r.energy_loss.value >= prr.energy_loss.value - tolp(r.energy_loss.value), "res energy_loss decreased".into(), json!({}));
            if !si.engine_on {
                c8(ctx, "engine_off_no_aux", lo.pwr_aux.value == 0.0 && r.pwr_aux.value == 0.0, format!("engine off but aux = {}", lo.pwr_aux.value), json!({}));
            }
        }
        c8(ctx, "edrv_loss_nonneg", e.pwr_loss.value >= -tolp(e.pwr_elec_prop_in.value), format!("edrv loss {}", e.pwr_loss.value), json!({}));
        c8(ctx, "edrv_eta_range", eta_ok(e.eta.value), format!("edrv eta {}", e.eta.value), json!({}));
        if e.pwr_mech_prop_out.value >= 0.0 {
            c8(ctx, "edrv_out_le_in", e.pwr_mech_prop_out.value <= e.pwr_elec_prop_in.value + tolp(e.pwr_elec_prop_in.value),
                format!("edrv traction mech_out {} > elec_in {}", e.pwr_mech_prop_out.value, e.pwr_elec_prop_in.value), json!({}));
        } else {
            obs(ctx, "C08", "obs.regen_step");
            c8(ctx, "edrv_out_le_in", e.pwr_elec_prop_in.value.abs() <= e.pwr_mech_prop_out.value.abs() + tolp(e.pwr_mech_prop_out.value),
                format!("edrv regen |elec_in| {} > |mech_out| {}", e.pwr_elec_prop_in.value.abs(), e.pwr_mech_prop_out.value.abs()), json!({}));
        }
        c8(ctx, "dyn_brake_monotone", e.energy_mech_dyn_brake.value >= pre.edrv.energy_mech_dyn_brake.value && e.energy_elec_dyn_brake.value >= pre.edrv.energy_elec_dyn_brake.value, "dyn brake energy decreased".into(), json!({}));
        c8(ctx, "loss_monotone", e.energy_loss.value >= pre.edrv.energy_loss.value - tolp(e.energy_loss.value), "edrv energy_loss decreased".into(), json!({}));
        c8(ctx, "dyn_brake_only_when_braking", e.pwr_mech_dyn_brake.value >= 0.0 && (si.demand < 0.0 || e.pwr_mech_dyn_brake.value == 0.0),
            format!("dyn brake {} with demand {}", e.pwr_mech_dyn_brake.value, si.demand), json!({}));
        // the electrical side of the same quantity (what the braking grid dissipates)
        c8(ctx, "dyn_brake_only_when_braking", e.pwr_elec_dyn_brake.value >= 0.0 && (si.demand < 0.0 || e.pwr_elec_dyn_brake.value == 0.0),
            format!("electrical dyn brake power {} with demand {}", e.pwr_elec_dyn_brake.value, si.demand), json!({}));
        c8(ctx, "dyn_brake_elec_le_mech", e.pwr_elec_dyn_brake.value <= e.pwr_mech_dyn_brake.value * (1.0 + 1e-9) + 1e-9,
            format!("electrical dyn brake power {} exceeds the mechanical power braked {}", e.pwr_elec_dyn_brake.value, e.pwr_mech_dyn_brake.value), json!({}));
    }

    // ---------------- C09: limits on accepted steps
    if l.assert_limits {
        let c9 = |ctx: &mut Ctx, clause: &str, ok: bool, msg: String, vals: Value| {
            obs(ctx, "C09", &format!("obs.{clause}"));
            if !ok {
                emit(ctx, "C09", clause, &format!("C09:{clause}"), msg, det(si, vals));
            }
        };
        let band = |lim: f64| lim * (1.0 + TOL + SLACK) + TOL + SLACK; // the code's own acceptance band (+slack)
        let exact = chain_exact(l);
        match &l.loco_type {
            PowertrainType::ConventionalLoco(c) => {
                let fc = post.fc.unwrap();
                let gen = post.gen.unwrap();
                let pfc = publ.fc.unwrap();
                let rating = c.fc.pwr_out_max.value;
                c9(ctx, "fc_within_rating", fc.pwr_brake.value <= band(rating), format!("fc shaft {} > rating {}", fc.pwr_brake.value, rating), json!({}));
                c9(ctx, "fc_within_transient", fc.pwr_brake.value <= band(pfc.pwr_out_max.value),
                    format!("fc shaft {} > published transient limit {}", fc.pwr_brake.value, pfc.pwr_out_max.value), json!({"published_w": pfc.pwr_out_max.value, "shaft_w": fc.pwr_brake.value}));
                let floor = c.fc.pwr_out_max_init.value.max(rating / 10.0);
                // previous shaft power = what the generator actually drew in the previous step (the physical
                // hand-off), not the engine's own record of it, so a stale engine record cannot fool the monitor
                let prev_shaft = pre.gen.unwrap().pwr_mech_in.value.min(pre.fc.unwrap().pwr_brake.value);
                let ramp = prev_shaft + rating / c.fc.pwr_ramp_lag.value * dt;
                c9(ctx, "fc_ramp_rate", pfc.pwr_out_max.value <= ramp.max(floor) * (1.0 + 1e-12),
                    format!("published fc limit {} > max(prev shaft + rating/lag*dt = {}, floor {})", pfc.pwr_out_max.value, ramp, floor),
                    json!({"published_w": pfc.pwr_out_max.value, "prev_shaft_w": prev_shaft, "fc_record_of_prev_shaft_w": pre.fc.unwrap().pwr_brake.value, "ramp_w": ramp, "floor_w": floor}));
                c9(ctx, "fc_limit_le_rating", pfc.pwr_out_max.value <= rating.max(floor) * (1.0 + 1e-12), format!("published fc limit {} > rating {}", pfc.pwr_out_max.value, rating), json!({}));
                c9(ctx, "gen_within_rating", gen.pwr_elec_prop_out.value + gen.pwr_elec_aux.value <= c.gen.pwr_out_max.value * (1.0 + 1e-12),
                    format!("gen out {} > rating {}", gen.pwr_elec_prop_out.value + gen.pwr_elec_aux.value, c.gen.pwr_out_max.value), json!({}));
                c9(ctx, "gen_limit_le_rating", publ.gen.unwrap().pwr_elec_out_max.value <= c.gen.pwr_out_max.value * (1.0 + 1e-12), "published gen limit > rating".into(), json!({}));
                c9(ctx, "edrv_within_rating", e.pwr_mech_prop_out.value.abs() <= c.edrv.pwr_out_max.value * (1.0 + 1e-12),
                    format!("edrv mech {} > rating {}", e.pwr_mech_prop_out.value, c.edrv.pwr_out_max.value), json!({}));
            }
            PowertrainType::BatteryElectricLoco(b) => {
                let r = post.res.unwrap();
                let pr = publ.res.unwrap();
                let rating = b.res.pwr_out_max.value;
                c9(ctx, "res_within_rating", r.pwr_out_electrical.value.abs() <= band(rating), format!("res elec {} > rating {}", r.pwr_out_electrical.value, rating), json!({}));
                if r.pwr_out_electrical.value >= 0.0 {
                    c9(ctx, "res_within_disch_limit", r.pwr_out_electrical.value <= band(pr.pwr_disch_max.value),
                        format!("res elec {} > published discharge limit {}", r.pwr_out_electrical.value, pr.pwr_disch_max.value),
                        json!({"published_w": pr.pwr_disch_max.value, "elec_w": r.pwr_out_electrical.value, "soc": pre.res.unwrap().soc.value}));
                } else {
                    c9(ctx, "res_within_charge_limit", -r.pwr_out_electrical.value <= band(pr.pwr_charge_max.value),
                        format!("res charge {} > published charge limit {}", -r.pwr_out_electrical.value, pr.pwr_charge_max.value),
                        json!({"published_w": pr.pwr_charge_max.value, "elec_w": r.pwr_out_electrical.value, "soc": pre.res.unwrap().soc.value}));
                }
                c9(ctx, "res_limits_le_rating", pr.pwr_disch_max.value <= rating * (1.0 + 1e-12) && pr.pwr_charge_max.value <= rating * (1.0 + 1e-12) && pr.pwr_disch_max.value >= -1e-6 && pr.pwr_charge_max.value >= -1e-6,
                    format!("published res limits disch {} charge {} outside [0, rating {}]", pr.pwr_disch_max.value, pr.pwr_charge_max.value, rating), json!({}));
                c9(ctx, "soc_window", r.soc.value >= b.res.min_soc.value - 1e-9 && r.soc.value <= b.res.max_soc.value + 1e-9,
                    format!("soc {} outside [{}, {}]", r.soc.value, b.res.min_soc.value, b.res.max_soc.value),
                    json!({"soc_prev": pre.res.unwrap().soc.value, "soc": r.soc.value}));
                c9(ctx, "edrv_within_rating", e.pwr_mech_prop_out.value.abs() <= b.edrv.pwr_out_max.value * (1.0 + 1e-12),
                    format!("edrv mech {} > rating {}", e.pwr_mech_prop_out.value, b.edrv.pwr_out_max.value), json!({}));
                c9(ctx, "regen_within_limit", -e.pwr_mech_prop_out.value <= publ.loco.pwr_regen_max.value * (1.0 + 1e-12) + 1e-9,
                    format!("regen {} > published regen limit {}", -e.pwr_mech_prop_out.value, publ.loco.pwr_regen_max.value), json!({}));
            }
            _ => {}
        }
        // published unit limit: never above the drivetrain rating, never below -aux
        let edrv_rating = match &l.loco_type {
            PowertrainType::ConventionalLoco(c) => c.edrv.pwr_out_max.value,
            PowertrainType::BatteryElectricLoco(b) => b.edrv.pwr_out_max.value,
            _ => f64::INFINITY,
        };
        c9(ctx, "unit_limit_bounds", publ.loco.pwr_out_max.value <= edrv_rating * (1.0 + 1e-12) && publ.loco.pwr_out_max.value >= -publ.loco.pwr_aux.value * (1.0 + 1e-12) - 1e-9
            && publ.loco.pwr_regen_max.value >= 0.0 && publ.loco.pwr_regen_max.value <= edrv_rating * (1.0 + 1e-12),
            format!("published unit limit {} / regen {} outside [-aux {}, rating {}]", publ.loco.pwr_out_max.value, publ.loco.pwr_regen_max.value, publ.loco.pwr_aux.value, edrv_rating), json!({}));
        if exact {
            // the acceptance band lives at the source (fc shaft / battery terminals, relative 1e-3 of the
            // *source* limit); seen from the wheel it is 1e-3 of the source limit, not of the wheel limit
            let src_lim = match (publ.fc, publ.res) {
                (Some(f), _) => f.pwr_out_max.value,
                (_, Some(r)) => r.pwr_disch_max.value,
                _ => 0.0,
            };
            c9(ctx, "unit_within_published_limit", lo.pwr_out.value <= publ.loco.pwr_out_max.value.max(0.0) + 2.0 * TOL * src_lim.abs() + 1.0,
                format!("unit traction {} > published unit limit {}", lo.pwr_out.value, publ.loco.pwr_out_max.value),
                json!({"published_w": publ.loco.pwr_out_max.value, "pwr_out_w": lo.pwr_out.value}));
        } else {
            obs(ctx, "C09", "obs.unit_limit_not_exact_chain(record_only)");
        }
        // near-limit bookkeeping for the non-triviality rule
        let p = publ.loco.pwr_out_max.value;
        if p > 0.0 && (lo.pwr_out.value / p - 1.0).abs() < 1e-3 {
            obs(ctx, "C09", "obs.accepted_within_1e-3_of_unit_limit");
        }
    }
}

pub fn classify_err(msg: &str) -> &'static str {
    let m = msg;
    if m.contains("static pwr_out_max") {
        "fc_static"
    } else if m.contains("transient pwr_out_max") {
        "fc_transient"
    } else if m.contains("gen required power") {
        "gen_static"
    } else if m.contains("edrv required power") {
        "edrv_static"
    } else if m.contains("static max discharge") {
        "res_static_disch"
    } else if m.contains("transient max discharge") {
        "res_transient_disch"
    } else if m.contains("exceeds static max power") {
        "res_static_charge"
    } else if m.contains("exceeds transient max power") {
        "res_transient_charge"
    } else if m.contains("over max SOC") {
        "soc_over_max"
    } else if m.contains("below min SOC") {
        "soc_below_min"
    } else if m.contains("Engine is off") {
        "engine_off_with_demand"
    } else if m.contains("exceeds max DB power") {
        "consist_dyn_brake"
    } else if m.contains("exceeds max power") {
        "consist_pwr_out_max"
    } else if m.contains("gen propulsion power is negative") {
        "gen_negative"
    } else if m.contains("fc pwr_out_req") && m.contains("greater than or equal to zero") {
        "fc_negative"
    } else if m.contains("surplus_frac") {
        "consist_surplus_frac"
    } else if m.contains("pwr_out_req") && m.contains("pwr_out_vec") {
        "consist_sum_mismatch"
    } else {
        "other"
    }
}

const DELTAS: [f64; 13] = [0.0, -1e-9, -1e-4, -2e-3, -1e-2, -0.5, 1e-9, 1e-4, 2e-3, 5e-3, 1e-2, 5e-2, 0.5];

struct Adversary {
    mode: usize,
    hold: usize,
    delta: f64,
    last: f64,
}

impl Adversary {
    fn new() -> Self {
        Adversary { mode: 0, hold: 0, delta: 0.0, last: 0.0 }
    }
    /// choose demand given published limits: traction limit p, regen limit r, dyn-brake rating d
    /// and optionally the RES-greedy switch point
    fn choose(&mut self, rng: &mut Rng, p: f64, r: f64, d: f64, switch: Option<f64>) -> f64 {
        if self.hold == 0 {
            self.mode = rng.usize(0, 9);
            self.hold = if rng.chance(0.3) { rng.usize(20, 200) } else { rng.usize(1, 8) };
            self.delta = *rng.pick(&DELTAS);
        }
        self.hold -= 1;
        let v = match self.mode {
            0 | 1 => p * (1.0 + self.delta),          // at / around the traction limit (walks the ramps)
            2 => -r * (1.0 + self.delta),             // at / around the regen limit
            3 => -d * (1.0 + self.delta.min(0.0)),    // at / below full dynamic braking
            4 => 0.0,
            5 => rng.range(-d, p.max(0.0)),           // random walk
            6 => -self.last,                          // sign flip
            7 => switch.unwrap_or(p) * (1.0 + self.delta),
            8 => p * rng.f(),
            _ => -d * rng.f(),
        };
        let v = if v.is_finite() { v } else { 0.0 };
        self.last = v;
        v
    }
}

fn run_sig(parts: &[f64], extra: u64) -> u64 {
    mix(hash_f64s(parts) ^ extra)
}

/// Single-unit adversarial run, driven exactly like LocomotiveSimulation::step.
/// C01 only: a battery that starts outside its SOC window (valid: e.g. the window was narrowed after charging);
/// the ledger clauses do not depend on the window
fn start_outside_soc_window(ctx: &mut Ctx, loco: &mut Locomotive, rng: &mut Rng) {
    if let Some(r) = loco.reversible_energy_storage_mut() {
        let (lo, hi) = (r.min_soc.value, r.max_soc.value);
        let above = hi < 0.995 && (rng.chance(0.6) || lo < 0.01);
        if above {
            r.state.soc = uc::R * (hi + (1.0 - hi) * rng.range(0.1, 1.0));
        } else if lo >= 0.01 {
            r.state.soc = uc::R * (lo * rng.range(0.05, 0.9));
        } else {
            return;
        }
        ctx.count("obs.batteries_starting_outside_their_soc_window");
    }
}

pub fn run_unit(ctx: &mut Ctx, rng: &mut Rng, steps: usize) {
    let kind = if rng.chance(0.5) { Kind::Conv } else { Kind::Bel };
    let mut loco = gp::locomotive(rng, kind);
    if ctx.prop == "C01" && rng.chance(0.1) {
        start_outside_soc_window(ctx, &mut loco, rng);
    }
    let dt_max = match &loco.loco_type {
        PowertrainType::BatteryElectricLoco(b) => gp::res_dt_max(&b.res),
        _ => 10.0,
    };
    let fixed_dt = if rng.chance(0.5) { Some(1.0f64.min(dt_max)) } else { None };
    let stat0 = unit_static(&loco);
    let mut adv = Adversary::new();
    let mut sh = Shadow::default();
    let (mut n_pos, mut n_neg, mut n_rej, mut n_off, mut n_near, mut n_regen) = (0u64, 0u64, 0u64, 0u64, 0u64, 0u64);
    let engine_policy = rng.usize(0, 3);
    for k in 0..steps {
        let dt = fixed_dt.unwrap_or_else(|| rng.lrange(0.05, dt_max.max(0.051)));
        // engine on/off pattern
        let mut engine_on: Option<bool> = match engine_policy {
            0 => None,
            1 => Some(true),
            _ => Some(!(rng.chance(0.08) || (k % 97) < 5)),
        };
        let pre = snap(&loco);
        loco.set_pwr_aux(engine_on);
        if let Err(e) = loco.set_cur_pwr_max_out(None, uc::S * dt) {
            ctx.count(&format!("set_cur_pwr_max_out_err.{}", classify_err(&format!("{e:#}"))));
            ctx.rep.diag(json!({"case": ctx.case, "set_cur_pwr_max_out_err": format!("{e:#}").chars().take(400).collect::<String>()}));
            break;
        }
        let publ = snap(&loco);
        let d = publ_edrv_rating(&loco);
        let mut demand = adv.choose(rng, publ.loco.pwr_out_max.value, publ.loco.pwr_regen_max.value, d, None);
        if engine_on == Some(false) && kind == Kind::Conv && !rng.chance(0.1) {
            demand = 0.0; // engine off is only admissible with zero demand; 10% probe the rejection
        }
        if engine_on == Some(false) && kind == Kind::Bel {
            engine_on = Some(false);
        }
        let backup = loco.clone();
        let r = loco.solve_energy_consumption(uc::W * demand, uc::S * dt, engine_on);
        match r {
            Ok(()) => {
                let post = snap(&loco);
                ctx.count("steps.accepted");
                if demand > 0.0 { n_pos += 1 } else if demand < 0.0 { n_neg += 1 }
                if engine_on == Some(false) { n_off += 1 }
                if post.edrv.pwr_mech_prop_out.value < 0.0 { n_regen += 1 }
                let p = publ.loco.pwr_out_max.value;
                if p > 0.0 && (demand / p - 1.0).abs() < 1e-2 { n_near += 1 }
                let statf = || stat0.clone();
                let si = StepInfo { who: "unit".into(), step: k, demand, dt, engine_on: engine_on.unwrap_or(true), in_consist: false, stat: &statf };
                check_unit(ctx, &loco, &pre, &publ, &post, &mut sh, &si);
                loco.save_state();
                loco.step();
            }
            Err(e) => {
                n_rej += 1;
                ctx.count("steps.rejected");
                ctx.count(&format!("rejected_by.{}", classify_err(&format!("{e:#}"))));
                loco = backup;
            }
        }
    }
    let nontrivial = match ctx.prop {
        "C01" => n_pos > 0 && n_neg > 0 && n_near > 0,
        "C08" => n_regen > 0 || n_off > 0,
        "C09" => n_near > 0 && n_rej > 0,
        _ => false,
    };
    if nontrivial {
        ctx.rep.nontrivial(run_sig(&[n_pos as f64, n_neg as f64, n_rej as f64, n_off as f64, n_regen as f64], crate::rng::hash_str(&stat0.to_string())));
    }
    ctx.rep.sample(json!({"run": "single unit, online adversary", "unit": stat0, "steps": steps,
        "accepted_pos": n_pos, "accepted_neg": n_neg, "rejected": n_rej, "engine_off_steps": n_off, "regen_steps": n_regen, "near_limit": n_near}));
}

fn publ_edrv_rating(l: &Locomotive) -> f64 {
    match &l.loco_type {
        PowertrainType::ConventionalLoco(c) => c.edrv.pwr_out_max.value,
        PowertrainType::BatteryElectricLoco(b) => b.edrv.pwr_out_max.value,
        _ => 0.0,
    }
}

/// Consist adversarial run, driven exactly like ConsistSimulation::step.
pub fn run_consist(ctx: &mut Ctx, rng: &mut Rng, steps: usize) {
    let mut n = rng.usize(1, 8);
    let (mut con, kinds) = gp::consist(rng, n);
    // C08 only: a fifth of the consists have their fleet edited part-way through the run (units set out, or the
    // whole fleet replaced, through the public drain_loco_vec / set_loco_vec); what the consist has burnt and
    // delivered so far stays burnt and delivered
    let reequip_at = if ctx.prop == "C08" && rng.chance(0.2) { Some(rng.usize(steps / 4, (3 * steps / 4).max(steps / 4 + 1))) } else { None };
    if ctx.prop == "C01" || ctx.prop == "C10" {
        if rng.chance(0.12) {
            // a consist first built with other units and then given its real ones (the fleet-editing path of
            // the Python API: set_loco_vec); every ledger must describe the units it holds now
            let pdct = con.pdct.clone();
            let placeholder = if rng.chance(0.5) { Locomotive::default() } else { Locomotive::default_battery_electric_loco() };
            let mut rebuilt = Consist::new(vec![placeholder; rng.usize(1, 3)], None, pdct);
            rebuilt.set_loco_vec(con.loco_vec.clone());
            con = rebuilt;
            ctx.count("obs.consists_re-equipped_through_set_loco_vec");
        }
        if ctx.prop == "C01" && rng.chance(0.1) {
            let k = rng.usize(0, n - 1);
            start_outside_soc_window(ctx, &mut con.loco_vec[k], rng);
        }
    }
    con.set_pwr_dyn_brake_max(); // what init() does after loading
    let greedy = matches!(con.pdct, PowerDistributionControlType::RESGreedy(_));
    let mut dt_max: f64 = 10.0;
    for l in &con.loco_vec {
        if let PowertrainType::BatteryElectricLoco(b) = &l.loco_type {
            dt_max = dt_max.min(gp::res_dt_max(&b.res));
        }
    }
    let fixed_dt = if rng.chance(0.5) { Some(1.0f64.min(dt_max)) } else { None };
    let engines_off_run = rng.chance(0.3);
    let mut stats: Vec<Value> = con.loco_vec.iter().map(unit_static).collect();
    let mut shadows: Vec<Shadow> = vec![Shadow::default(); n];
    let mut csh = Shadow::default();
    let mut adv = Adversary::new();
    let (mut n_pos, mut n_neg, mut n_rej, mut n_deficit, mut n_regen_def) = (0u64, 0u64, 0u64, 0u64, 0u64);
    let mixed = kinds.iter().any(|k| *k == Kind::Conv) && kinds.iter().any(|k| *k == Kind::Bel);
    for k in 0..steps {
        if reequip_at == Some(k) {
            if n > 1 && rng.chance(0.5) {
                let i = rng.usize(0, n - 1);
                let _set_out = con.drain_loco_vec(i, i + 1);
                stats.remove(i);
                shadows.remove(i);
                ctx.count("obs.consists_with_a_unit_set_out_mid_run");
            } else {
                let n_new = rng.usize(1, 4);
                let (fresh, _) = gp::consist(rng, n_new);
                con.set_loco_vec(fresh.loco_vec.clone());
                stats = con.loco_vec.iter().map(unit_static).collect();
                shadows = vec![Shadow::default(); con.loco_vec.len()];
                ctx.count("obs.consists_re-equipped_mid_run");
            }
            n = con.loco_vec.len();
            for l in &con.loco_vec {
                if let PowertrainType::BatteryElectricLoco(b) = &l.loco_type {
                    dt_max = dt_max.min(gp::res_dt_max(&b.res));
                }
            }
        }
        let dt = fixed_dt.map(|d| d.min(dt_max)).unwrap_or_else(|| rng.lrange(0.05, dt_max.max(0.051)));
        let pres: Vec<UnitSnap> = con.loco_vec.iter().map(snap).collect();
        let cpre = con.state;
        // engines commanded off for single steps (the `engine_on` argument of the consist API; the shipped
        // simulations always pass `Some(true)`): only with braking or zero demand, as for single units
        let eng_on = !(engines_off_run && rng.chance(0.12));
        if !eng_on {
            ctx.count("obs.consist_steps_with_engines_commanded_off");
        }
        con.set_pwr_aux(Some(eng_on)).unwrap();
        if let Err(e) = con.set_cur_pwr_max_out(None, uc::S * dt) {
            ctx.count(&format!("set_cur_pwr_max_out_err.{}", classify_err(&format!("{e:#}"))));
            ctx.rep.diag(json!({"case": ctx.case, "set_cur_pwr_max_out_err": format!("{e:#}").chars().take(400).collect::<String>()}));
            break;
        }
        let publs: Vec<UnitSnap> = con.loco_vec.iter().map(snap).collect();
        let cp = con.state;
        let mut demand = adv.choose(rng, cp.pwr_out_max.value, cp.pwr_regen_max.value, cp.pwr_dyn_brake_max.value, Some(cp.pwr_out_max_reves.value));
        if !eng_on && demand > 0.0 {
            demand = if rng.chance(0.3) { 0.0 } else { -demand.min(cp.pwr_dyn_brake_max.value) };
        }
        let backup = con.clone();
        let r = con.solve_energy_consumption(uc::W * demand, uc::S * dt, Some(eng_on));
        match r {
            Ok(()) => {
                ctx.count("consist_steps.accepted");
                if demand > 0.0 { n_pos += 1 } else if demand < 0.0 { n_neg += 1 }
                let posts: Vec<UnitSnap> = con.loco_vec.iter().map(snap).collect();
                let cs = con.state;
                if cs.pwr_out_deficit.value > 0.0 && mixed { n_deficit += 1 }
                if cs.pwr_regen_deficit.value > 0.0 && mixed { n_regen_def += 1 }
                for i in 0..n {
                    let st = stats[i].clone();
                    let statf = move || st.clone();
                    let si = StepInfo { who: format!("consist unit {i} of {n}"), step: k, demand: posts[i].loco.pwr_out.value, dt, engine_on: eng_on, in_consist: true, stat: &statf };
                    check_unit(ctx, &con.loco_vec[i], &pres[i], &publs[i], &posts[i], &mut shadows[i], &si);
                }
                check_consist(ctx, &con, &cpre, &cp, &publs, &posts, demand, dt, k, greedy, &stats, &mut csh);
                con.save_state();
                con.step();
            }
            Err(e) => {
                n_rej += 1;
                ctx.count("consist_steps.rejected");
                ctx.count(&format!("rejected_by.{}", classify_err(&format!("{e:#}"))));
                con = backup;
            }
        }
    }
    let nontrivial = match ctx.prop {
        "C10" => mixed && (n_deficit > 0 || n_regen_def > 0),
        "C01" => n_pos > 0 && n_neg > 0,
        "C08" => n_neg > 0,
        "C09" => n_rej > 0 && n_pos > 0,
        _ => false,
    };
    if nontrivial {
        ctx.rep.nontrivial(run_sig(&[n_pos as f64, n_neg as f64, n_rej as f64, n_deficit as f64, n_regen_def as f64], crate::rng::hash_str(&json!(stats).to_string())));
    }
    ctx.rep.sample(json!({"run": "consist, online adversary", "policy": if greedy {"RESGreedy"} else {"Proportional"},
        "kinds": kinds.iter().map(|k| format!("{k:?}")).collect::<Vec<_>>(), "steps": steps,
        "accepted_pos": n_pos, "accepted_neg": n_neg, "rejected": n_rej, "deficit_steps": n_deficit, "regen_deficit_steps": n_regen_def,
        "first_unit": stats[0]}));
}

#[allow(clippy::too_many_arguments)]
fn check_consist(
    ctx: &mut Ctx,
    con: &Consist,
    cpre: &ConsistState,
    cp: &ConsistState,
    publs: &[UnitSnap],
    posts: &[UnitSnap],
    demand: f64,
    dt: f64,
    step: usize,
    greedy: bool,
    stats: &[Value],
    csh: &mut Shadow,
) {
    let cs = con.state;
    let n = posts.len();
    let assigned: Vec<f64> = posts.iter().map(|p| p.loco.pwr_out.value).collect();
    let sum: f64 = assigned.iter().sum();
    let abs_sum: f64 = assigned.iter().map(|x| x.abs()).sum();
    let kinds: Vec<String> = posts.iter().map(|p| format!("{:?}", p.kind)).collect();
    let limits: Vec<f64> = publs.iter().map(|p| p.loco.pwr_out_max.value).collect();
    let regen_limits: Vec<f64> = publs.iter().map(|p| p.loco.pwr_regen_max.value).collect();
    let base = json!({"step": step, "demand_w": jf(demand), "dt_s": dt, "policy": if greedy {"RESGreedy"} else {"Proportional"},
        "kinds": kinds, "assigned_w": assigned, "published_limits_w": limits, "published_regen_limits_w": regen_limits,
        "consist_published": {"pwr_out_max": cp.pwr_out_max.value, "pwr_out_max_reves": cp.pwr_out_max_reves.value, "pwr_regen_max": cp.pwr_regen_max.value, "pwr_dyn_brake_max": cp.pwr_dyn_brake_max.value},
        "units": stats});
    // ---- C10
    obs(ctx, "C10", "obs.sum_conserved");
    if !close(sum, demand, 1e-7, abs_sum) {
        emit(ctx, "C10", "sum_conserved", "C10:sum_conserved", format!("sum of assigned {sum} != requested {demand}"), base.clone());
    }
    let mut bel_limit_sum = 0.0;
    let mut conv_sum = 0.0;
    for i in 0..n {
        let a = assigned[i];
        let edrv_rating = publ_edrv_rating(&con.loco_vec[i]);
        obs(ctx, "C10", "obs.unit_within_limit");
        if a > limits[i].max(0.0) * (1.0 + 1e-9) + 1e-6 && a > 0.0 {
            emit(ctx, "C10", "unit_within_limit", "C10:unit_within_limit", format!("unit {i} assigned {a} > published limit {}", limits[i]), base.clone());
        }
        obs(ctx, "C10", "obs.unit_braking_within_rating");
        if -a > edrv_rating * (1.0 + 1e-9) + 1e-6 {
            emit(ctx, "C10", "unit_braking_within_rating", "C10:unit_braking_within_rating", format!("unit {i} assigned braking {} > drivetrain rating {edrv_rating}", -a), base.clone());
        }
        obs(ctx, "C10", "obs.sign_agreement");
        let bad_sign = (demand > 0.0 && a < -1e-9) || (demand < 0.0 && a > 1e-9) || (demand == 0.0 && a != 0.0);
        if bad_sign {
            // exact signature of the recorded finding: battery unit whose published limit is negative
            // (depleted, aux > discharge limit) is assigned exactly that limit under positive demand
            // exact signature of the (repaired) defect: a unit whose *published traction limit is negative*
            // (aux load above what its source can deliver) is assigned a share in [limit, 0) under positive demand
            let known = demand > 0.0 && limits[i] < 0.0 && a >= limits[i] * (1.0 + 1e-9) - 1e-9 && a < 0.0;
            let sig = if known { "C10:sign_agreement:negative_published_limit_assigned_under_positive_demand" } else { "C10:sign_agreement" };
            emit(ctx, "C10", "sign_agreement", sig, format!("unit {i} ({:?}) assigned {a} W while consist demand is {demand} W (published limit {})", posts[i].kind, limits[i]), base.clone());
        }
        obs(ctx, "C10", "obs.regen_only_on_battery_units");
        let regen = -posts[i].edrv.pwr_mech_prop_out.value;
        match posts[i].kind {
            Kind::Conv => {
                conv_sum += a;
                if regen > 1e-9 {
                    emit(ctx, "C10", "regen_only_on_battery_units", "C10:regen_only_on_battery_units", format!("conventional unit {i} regenerates {regen}"), base.clone());
                }
            }
            Kind::Bel => {
                bel_limit_sum += limits[i];
                if regen > regen_limits[i] * (1.0 + 1e-9) + 1e-6 {
                    emit(ctx, "C10", "regen_within_limit", "C10:regen_within_limit", format!("unit {i} regen {regen} > published regen limit {}", regen_limits[i]), base.clone());
                }
            }
        }
    }
    if greedy && demand > 0.0 {
        obs(ctx, "C10", "obs.battery_first");
        let allowed = (demand - bel_limit_sum).max(0.0);
        if conv_sum > allowed * (1.0 + 1e-7) + 1e-6 * demand.abs().max(1.0) {
            let any_neg_bel = (0..n).any(|i| posts[i].kind == Kind::Bel && limits[i] < 0.0);
            let _ = any_neg_bel;
            emit(ctx, "C10", "battery_first", "C10:battery_first", format!("fuel-burning units carry {conv_sum} W > max(0, demand - battery limits) = {allowed} W"), base.clone());
        }
    }
    // ---- C01: consist roll-ups
    let fuel: f64 = posts.iter().map(|p| p.fc.map(|f| f.pwr_fuel.value).unwrap_or(0.0)).sum();
    let chem: f64 = posts.iter().map(|p| p.res.map(|r| r.pwr_out_chemical.value).unwrap_or(0.0)).sum();
    let ck = |ctx: &mut Ctx, clause: &str, a: f64, b: f64, rel: f64, scale: f64| {
        obs(ctx, "C01", &format!("obs.{clause}"));
        if !close(a, b, rel, scale) {
            emit(ctx, "C01", clause, &format!("C01:{clause}"), format!("{clause}: {a:e} vs {b:e}"), base.clone());
        }
    };
    ck(ctx, "consist_pwr_fuel", cs.pwr_fuel.value, fuel, REL, fuel.abs());
    ck(ctx, "consist_pwr_reves", cs.pwr_reves.value, chem, REL, posts.iter().map(|p| p.res.map(|r| r.pwr_out_chemical.value.abs()).unwrap_or(0.0)).sum());
    ck(ctx, "consist_pwr_out", cs.pwr_out.value, sum, REL, abs_sum);
    let efuel: f64 = posts.iter().map(|p| p.fc.map(|f| f.energy_fuel.value).unwrap_or(0.0)).sum();
    let echem: f64 = posts.iter().map(|p| p.res.map(|r| r.energy_out_chemical.value).unwrap_or(0.0)).sum();
    let echem_abs: f64 = posts.iter().map(|p| p.res.map(|r| r.energy_out_chemical.value.abs() + r.energy_loss.value.abs()).unwrap_or(0.0)).sum();
    let eout: f64 = posts.iter().map(|p| p.loco.energy_out.value).sum();
    let (_, eo_abs) = csh.acc("consist.energy_out.abs", cs.pwr_out.value, dt);
    ck(ctx, "consist_energy_fuel", cs.energy_fuel.value, efuel, RELC, efuel.abs());
    ck(ctx, "consist_get_energy_fuel", con.get_energy_fuel().value, efuel, RELC, efuel.abs());
    ck(ctx, "consist_energy_res", cs.energy_res.value, echem, RELC, echem_abs.max(eo_abs));
    ck(ctx, "consist_get_net_energy_res", con.get_net_energy_res().value, echem, RELC, echem_abs.max(eo_abs));
    ck(ctx, "consist_energy_out", cs.energy_out.value, eout, RELC, eo_abs);
    ck(ctx, "consist_energy_pos_neg", cs.energy_out_pos.value - cs.energy_out_neg.value, cs.energy_out.value, RELC, eo_abs);
    // ---- C08: the consist's own cumulative counters never decrease (whatever happens to its fleet between steps)
    for (name, before, after) in [
        ("consist.energy_fuel", cpre.energy_fuel.value, cs.energy_fuel.value),
        ("consist.energy_out_pos", cpre.energy_out_pos.value, cs.energy_out_pos.value),
        ("consist.energy_out_neg", cpre.energy_out_neg.value, cs.energy_out_neg.value),
    ] {
        obs(ctx, "C08", "obs.consist_cumulative_monotone");
        if !(after >= before) {
            emit(ctx, "C08", "consist_cumulative_monotone", &format!("C08:decreasing:{name}"), format!("{name} went from {before} J to {after} J in one accepted consist step"), base.clone());
        }
    }
}

fn dispatch_run(ctx: &mut Ctx, rng: &mut Rng, steps: usize, p_unit: f64) {
    let walk = rng.chance(0.3);
    let unit = rng.chance(p_unit);
    match (walk, unit) {
        (false, true) => run_unit(ctx, rng, steps),
        (false, false) => run_consist(ctx, rng, steps / 2),
        (true, true) => walk_unit(ctx, rng, steps.min(600)),
        (true, false) => walk_consist(ctx, rng, (steps / 2).min(400)),
    }
}
pub fn run_c01(ctx: &mut Ctx, rng: &mut Rng, thorough: bool) {
    let steps = if thorough { rng.usize(300, 2000) } else { rng.usize(200, 800) };
    dispatch_run(ctx, rng, steps, 0.5)
}
pub fn run_c08(ctx: &mut Ctx, rng: &mut Rng, thorough: bool) {
    let steps = if thorough { rng.usize(300, 2000) } else { rng.usize(200, 800) };
    dispatch_run(ctx, rng, steps, 0.7)
}
pub fn run_c09(ctx: &mut Ctx, rng: &mut Rng, thorough: bool) {
    let steps = if thorough { rng.usize(300, 2000) } else { rng.usize(200, 800) };
    dispatch_run(ctx, rng, steps, 0.6)
}
pub fn run_c10(ctx: &mut Ctx, rng: &mut Rng, thorough: bool) {
    let steps = if thorough { rng.usize(200, 1000) } else { rng.usize(100, 400) };
    if rng.chance(0.25) {
        walk_consist(ctx, rng, steps.min(400))
    } else {
        run_consist(ctx, rng, steps)
    }
}

// ------------------------------------------------------------------------------------------
// Trace walker: the same oracles over the histories produced by the real
// LocomotiveSimulation::walk / ConsistSimulation::walk (save_interval = 1).

fn unit_rows(l: &Locomotive) -> Vec<UnitSnap> {
    let lrows = l.history.state_vec();
    match &l.loco_type {
        PowertrainType::ConventionalLoco(c) => {
            let (f, g, e) = (c.fc.history.state_vec(), c.gen.history.state_vec(), c.edrv.history.state_vec());
            (0..lrows.len().min(f.len()).min(g.len()).min(e.len()))
                .map(|k| UnitSnap { kind: Kind::Conv, fc: Some(f[k]), gen: Some(g[k]), res: None, edrv: e[k], loco: lrows[k] })
                .collect()
        }
        PowertrainType::BatteryElectricLoco(b) => {
            let (r, e) = (b.res.history.state_vec(), b.edrv.history.state_vec());
            (0..lrows.len().min(r.len()).min(e.len()))
                .map(|k| UnitSnap { kind: Kind::Bel, fc: None, gen: None, res: Some(r[k]), edrv: e[k], loco: lrows[k] })
                .collect()
        }
        _ => vec![],
    }
}

/// safe demand: a fraction of the published window so that the real walk() does not stop early
fn safe_demand(rng: &mut Rng, mode: usize, p: f64, r: f64, d: f64) -> f64 {
    let p = p.max(0.0);
    match mode {
        0 => p * (1.0 - 1e-9),
        1 => p * rng.f(),
        2 => -r * (1.0 - 1e-9),
        3 => -d * rng.f() * 0.95,
        4 => 0.0,
        5 => p * 0.999,
        _ => rng.range(-d * 0.9, p * 0.98),
    }
}

pub fn walk_unit(ctx: &mut Ctx, rng: &mut Rng, steps: usize) {
    let kind = if rng.chance(0.5) { Kind::Conv } else { Kind::Bel };
    let loco0 = gp::locomotive(rng, kind);
    let dt_max = match &loco0.loco_type {
        PowertrainType::BatteryElectricLoco(b) => gp::res_dt_max(&b.res),
        _ => 10.0,
    };
    let stat0 = unit_static(&loco0);
    // 1. probe run (online) to obtain an admissible trace
    let mut probe = loco0.clone();
    let (mut time, mut pwr, mut eng) = (vec![0.0], vec![0.0], vec![Some(true)]);
    let irregular = rng.chance(0.6);
    let engine_policy = rng.usize(0, 2);
    let mut mode = 0;
    let mut hold = 0;
    for k in 0..steps {
        let dt = if irregular { rng.lrange(0.05, dt_max.max(0.051)) } else { 1.0f64.min(dt_max) };
        // the simulation derives dt from the trace's time stamps: use exactly that value here too
        let t_new = time.last().unwrap() + dt;
        let dt = t_new - time.last().unwrap();
        if hold == 0 {
            mode = rng.usize(0, 6);
            hold = rng.usize(1, 40);
        }
        hold -= 1;
        let mut engine_on = match engine_policy {
            0 => None,
            1 => Some(true),
            _ => Some(!((k % 53) < 6)),
        };
        probe.set_pwr_aux(engine_on);
        if probe.set_cur_pwr_max_out(None, uc::S * dt).is_err() {
            break;
        }
        let d = publ_edrv_rating(&probe);
        let mut demand = safe_demand(rng, mode, probe.state.pwr_out_max.value, probe.state.pwr_regen_max.value, d);
        if engine_on == Some(false) && kind == Kind::Conv {
            demand = 0.0;
        }
        let backup = probe.clone();
        if probe.solve_energy_consumption(uc::W * demand, uc::S * dt, engine_on).is_err() {
            // fall back to an idle step with the engine on
            probe = backup;
            engine_on = Some(true);
            demand = 0.0;
            probe.set_pwr_aux(engine_on);
            if probe.set_cur_pwr_max_out(None, uc::S * dt).is_err() || probe.solve_energy_consumption(uc::W * 0.0, uc::S * dt, engine_on).is_err() {
                break;
            }
        }
        probe.step();
        time.push(t_new);
        pwr.push(demand);
        eng.push(engine_on);
    }
    if time.len() < 3 {
        ctx.count("walk.trace_too_short");
        return;
    }
    // 2. the real walk
    let trace = PowerTrace::new(time.clone(), pwr.clone(), eng.clone());
    let mut sim = LocomotiveSimulation::new(loco0, trace, Some(1));
    if let Err(e) = sim.walk() {
        ctx.count("walk.err");
        ctx.rep.diag(json!({"case": ctx.case, "walk_err": format!("{e:#}").chars().take(300).collect::<String>()}));
        return;
    }
    ctx.count("walk.ok");
    // 3. oracles over the histories
    let rows = unit_rows(&sim.loco_unit);
    let mut sh = Shadow::default();
    let (mut n_pos, mut n_neg, mut n_off, mut n_regen) = (0u64, 0u64, 0u64, 0u64);
    for k in 1..rows.len() {
        // row 0 is the initial state, row k the state after step k (trace index k)
        let dt = time[k] - time[k - 1];
        let statf = || stat0.clone();
        let on = eng[k].unwrap_or(true);
        let si = StepInfo { who: "unit (LocomotiveSimulation::walk history)".into(), step: k, demand: pwr[k], dt, engine_on: on, in_consist: false, stat: &statf };
        check_unit(ctx, &sim.loco_unit, &rows[k - 1], &rows[k], &rows[k], &mut sh, &si);
        ctx.count("steps.accepted");
        ctx.count("walk.history_rows_checked");
        if pwr[k] > 0.0 { n_pos += 1 } else if pwr[k] < 0.0 { n_neg += 1 }
        if !on { n_off += 1 }
        if rows[k].edrv.pwr_mech_prop_out.value < 0.0 { n_regen += 1 }
    }
    // final state of the walk equals the online probe (same code, same inputs)
    let fin = snap(&sim.loco_unit);
    let pfin = snap(&probe);
    if ctx.prop == "C01" {
        ctx.count("obs.walk_equals_online");
        if fin.loco.energy_out != pfin.loco.energy_out || fin.edrv.energy_loss != pfin.edrv.energy_loss {
            ctx.violate("walk_equals_online", "C01:walk_equals_online", "walk() totals differ from the step-by-step drive on the same trace".into(),
                json!({"unit": stat0, "walk_energy_out": fin.loco.energy_out.value, "online_energy_out": pfin.loco.energy_out.value}));
        }
    }
    let nontrivial = match ctx.prop {
        "C01" => n_pos > 0 && n_neg > 0,
        "C08" => n_regen > 0 || n_off > 0,
        "C09" => n_pos > 0,
        _ => false,
    };
    if nontrivial {
        ctx.rep.nontrivial(run_sig(&[n_pos as f64, n_neg as f64, n_off as f64, n_regen as f64, 7.0], crate::rng::hash_str(&stat0.to_string())));
    }
    ctx.rep.sample(json!({"run": "single unit, LocomotiveSimulation::walk over generated PowerTrace", "unit": stat0, "trace_len": time.len(),
        "irregular_dt": irregular, "pos": n_pos, "neg": n_neg, "engine_off": n_off, "regen": n_regen,
        "trace_head": {"time_s": time.iter().take(6).collect::<Vec<_>>(), "pwr_w": pwr.iter().take(6).collect::<Vec<_>>(), "engine_on": eng.iter().take(6).collect::<Vec<_>>()}}));
}

pub fn walk_consist(ctx: &mut Ctx, rng: &mut Rng, steps: usize) {
    let n = rng.usize(1, 6);
    let (con0, kinds) = gp::consist(rng, n);
    let greedy = matches!(con0.pdct, PowerDistributionControlType::RESGreedy(_));
    let mut dt_max: f64 = 10.0;
    for l in &con0.loco_vec {
        if let PowertrainType::BatteryElectricLoco(b) = &l.loco_type {
            dt_max = dt_max.min(gp::res_dt_max(&b.res));
        }
    }
    let stats: Vec<Value> = con0.loco_vec.iter().map(unit_static).collect();
    let mut probe = con0.clone();
    let (mut time, mut pwr) = (vec![0.0], vec![0.0]);
    let irregular = rng.chance(0.6);
    let mut mode = 0;
    let mut hold = 0;
    for _k in 0..steps {
        let dt = if irregular { rng.lrange(0.05, dt_max.max(0.051)) } else { 1.0f64.min(dt_max) };
        // the simulation derives dt from the trace's time stamps: use exactly that value here too
        let t_new = time.last().unwrap() + dt;
        let dt = t_new - time.last().unwrap();
        if hold == 0 {
            mode = rng.usize(0, 6);
            hold = rng.usize(1, 40);
        }
        hold -= 1;
        probe.set_pwr_aux(Some(true)).unwrap();
        if probe.set_cur_pwr_max_out(None, uc::S * dt).is_err() {
            break;
        }
        let cp = probe.state;
        let mut demand = safe_demand(rng, mode, cp.pwr_out_max.value, cp.pwr_regen_max.value, cp.pwr_dyn_brake_max.value);
        let backup = probe.clone();
        if probe.solve_energy_consumption(uc::W * demand, uc::S * dt, Some(true)).is_err() {
            probe = backup;
            demand = 0.0;
            probe.set_pwr_aux(Some(true)).unwrap();
            if probe.set_cur_pwr_max_out(None, uc::S * dt).is_err() || probe.solve_energy_consumption(uc::W * 0.0, uc::S * dt, Some(true)).is_err() {
                break;
            }
        }
        probe.step();
        time.push(t_new);
        pwr.push(demand);
    }
    if time.len() < 3 {
        ctx.count("walk.trace_too_short");
        return;
    }
    let trace = PowerTrace::new(time.clone(), pwr.clone(), vec![Some(true); time.len()]);
    let mut sim = ConsistSimulation::new(con0, trace, Some(1));
    if let Err(e) = sim.walk() {
        ctx.count("walk.err");
        ctx.rep.diag(json!({"case": ctx.case, "consist_walk_err": format!("{e:#}").chars().take(300).collect::<String>()}));
        return;
    }
    ctx.count("walk.ok");
    let crow = sim.loco_con.history.state_vec();
    let urows: Vec<Vec<UnitSnap>> = sim.loco_con.loco_vec.iter().map(unit_rows).collect();
    let len = urows.iter().map(|r| r.len()).min().unwrap_or(0).min(crow.len());
    let mut shadows: Vec<Shadow> = vec![Shadow::default(); n];
    let (mut n_pos, mut n_neg) = (0u64, 0u64);
    for k in 1..len {
        let dt = time[k] - time[k - 1];
        for i in 0..n {
            let st = stats[i].clone();
            let statf = move || st.clone();
            let si = StepInfo { who: format!("consist unit {i} of {n} (ConsistSimulation::walk history)"), step: k, demand: urows[i][k].loco.pwr_out.value, dt, engine_on: true, in_consist: true, stat: &statf };
            check_unit(ctx, &sim.loco_con.loco_vec[i], &urows[i][k - 1], &urows[i][k], &urows[i][k], &mut shadows[i], &si);
        }
        // consist-level split clauses on the history row
        let publs: Vec<UnitSnap> = (0..n).map(|i| urows[i][k]).collect();
        check_consist_row(ctx, &sim.loco_con, &crow[k], &publs, pwr[k], dt, k, greedy, &stats);
        ctx.count("consist_steps.accepted");
        ctx.count("walk.history_rows_checked");
        if pwr[k] > 0.0 { n_pos += 1 } else if pwr[k] < 0.0 { n_neg += 1 }
    }
    let mixed = kinds.iter().any(|k| *k == Kind::Conv) && kinds.iter().any(|k| *k == Kind::Bel);
    let nontrivial = match ctx.prop {
        "C10" => mixed && n_pos > 0 && n_neg > 0,
        "C01" => n_pos > 0 && n_neg > 0,
        "C08" => n_neg > 0,
        "C09" => n_pos > 0,
        _ => false,
    };
    if nontrivial {
        ctx.rep.nontrivial(run_sig(&[n_pos as f64, n_neg as f64, 11.0], crate::rng::hash_str(&json!(stats).to_string())));
    }
    ctx.rep.sample(json!({"run": "consist, ConsistSimulation::walk over generated PowerTrace", "policy": if greedy {"RESGreedy"} else {"Proportional"},
        "kinds": kinds.iter().map(|k| format!("{k:?}")).collect::<Vec<_>>(), "trace_len": time.len(), "pos": n_pos, "neg": n_neg}));
}

/// consist clauses evaluated on a saved history row (limits and results of a step share the row)
#[allow(clippy::too_many_arguments)]
fn check_consist_row(ctx: &mut Ctx, con: &Consist, cs: &ConsistState, rows: &[UnitSnap], demand: f64, dt: f64, step: usize, greedy: bool, stats: &[Value]) {
    let mut tmp = con.clone();
    tmp.state = *cs;
    // reuse the live-state checker; energies of `con` are the final ones, so only power clauses apply:
    // build a reduced view by calling the shared function with a scratch shadow and the row's values
    let _ = (&mut tmp, dt);
    let n = rows.len();
    let assigned: Vec<f64> = rows.iter().map(|p| p.loco.pwr_out.value).collect();
    let sum: f64 = assigned.iter().sum();
    let abs_sum: f64 = assigned.iter().map(|x| x.abs()).sum();
    let limits: Vec<f64> = rows.iter().map(|p| p.loco.pwr_out_max.value).collect();
    let base = json!({"step": step, "demand_w": jf(demand), "policy": if greedy {"RESGreedy"} else {"Proportional"}, "source": "ConsistSimulation::walk history row",
        "assigned_w": assigned, "published_limits_w": limits, "units": stats});
    obs(ctx, "C10", "obs.sum_conserved");
    if !close(sum, demand, 1e-7, abs_sum) {
        emit(ctx, "C10", "sum_conserved", "C10:sum_conserved", format!("sum of assigned {sum} != requested {demand}"), base.clone());
    }
    obs(ctx, "C01", "obs.consist_pwr_out");
    if !close(cs.pwr_out.value, sum, REL, abs_sum) {
        emit(ctx, "C01", "consist_pwr_out", "C01:consist_pwr_out", format!("consist pwr_out {} != sum over units {sum}", cs.pwr_out.value), base.clone());
    }
    let fuel: f64 = rows.iter().map(|p| p.fc.map(|f| f.pwr_fuel.value).unwrap_or(0.0)).sum();
    let efuel: f64 = rows.iter().map(|p| p.fc.map(|f| f.energy_fuel.value).unwrap_or(0.0)).sum();
    let echem: f64 = rows.iter().map(|p| p.res.map(|r| r.energy_out_chemical.value).unwrap_or(0.0)).sum();
    let echem_abs: f64 = rows.iter().map(|p| p.res.map(|r| r.energy_out_chemical.value.abs() + r.energy_loss.value + r.energy_out_electrical.value.abs()).unwrap_or(0.0)).sum();
    let eout: f64 = rows.iter().map(|p| p.loco.energy_out.value).sum();
    let eout_abs: f64 = rows.iter().map(|p| p.edrv.energy_mech_prop_out.value.abs() + p.edrv.energy_mech_dyn_brake.value + p.edrv.energy_loss.value).sum::<f64>() + cs.energy_out_pos.value + cs.energy_out_neg.value;
    for (clause, a, b, rel, sc) in [
        ("consist_pwr_fuel", cs.pwr_fuel.value, fuel, REL, fuel.abs()),
        ("consist_energy_fuel", cs.energy_fuel.value, efuel, RELC, efuel.abs()),
        ("consist_energy_res", cs.energy_res.value, echem, RELC, echem_abs),
        ("consist_energy_out", cs.energy_out.value, eout, RELC, eout_abs),
        ("consist_energy_pos_neg", cs.energy_out_pos.value - cs.energy_out_neg.value, cs.energy_out.value, RELC, eout_abs),
    ] {
        obs(ctx, "C01", &format!("obs.{clause}"));
        if !close(a, b, rel, sc) {
            emit(ctx, "C01", clause, &format!("C01:{clause}"), format!("{clause}: {a:e} vs {b:e}"), base.clone());
        }
    }
    for i in 0..n {
        let a = assigned[i];
        obs(ctx, "C10", "obs.sign_agreement");
        let bad_sign = (demand > 0.0 && a < -1e-9) || (demand < 0.0 && a > 1e-9) || (demand == 0.0 && a != 0.0);
        if bad_sign {
            let known = demand > 0.0 && limits[i] < 0.0 && a >= limits[i] * (1.0 + 1e-9) - 1e-9 && a < 0.0;
            let sig = if known { "C10:sign_agreement:negative_published_limit_assigned_under_positive_demand" } else { "C10:sign_agreement" };
            emit(ctx, "C10", "sign_agreement", sig, format!("unit {i} assigned {a} W while consist demand is {demand} W (published limit {})", limits[i]), base.clone());
        }
        obs(ctx, "C10", "obs.unit_within_limit");
        if a > limits[i].max(0.0) * (1.0 + 1e-9) + 1e-6 && a > 0.0 {
            emit(ctx, "C10", "unit_within_limit", "C10:unit_within_limit", format!("unit {i} assigned {a} > published limit {}", limits[i]), base.clone());
        }
    }
}
