//! C20: mass and traction-limit parameters stay mutually consistent under every update.
//! Random sequences of setter calls with every side-effect option on components and locomotives
//! loaded from files with (in)consistent redundant mass data; invariants on getters after every call.
use crate::gen::powertrain::{self as gp, Kind};
use crate::gen::train as gt;
use crate::report::{close, Ctx};
use crate::rng::{hash_f64s, mix, Rng};
use altrios_core::consist::locomotive::{ForceMaxSideEffect, MuSideEffect, PowertrainType};
use altrios_core::prelude::*;
use altrios_core::track::TrainType;
use altrios_core::traits::{Mass, MassSideEffect, SerdeAPI};
use altrios_core::uc;
use serde_json::{json, Value};

const G: f64 = 9.801_548_494_963_14;

fn opt(v: &Value, k: &str) -> Option<f64> {
    v.get(k).and_then(|x| x.as_f64())
}

// ---------------------------------------------------------------- components

#[derive(Clone, Debug, PartialEq)]
struct CompView {
    mass_getter: Result<Option<f64>, String>,
    mass_field: Option<f64>,
    specific: Option<f64>,
    rating: f64,
}

trait Comp: Mass + SerdeAPI + Clone {
    const NAME: &'static str;
    const SPECIFIC: &'static str;
    const RATING: &'static str;
    fn view(&self) -> CompView {
        let v = serde_json::to_value(self).unwrap();
        CompView {
            mass_getter: self.mass().map(|m| m.map(|x| x.value)).map_err(|e| format!("{e:#}").chars().take(120).collect()),
            mass_field: opt(&v, "mass"),
            specific: opt(&v, Self::SPECIFIC),
            rating: opt(&v, Self::RATING).unwrap_or(f64::NAN),
        }
    }
    fn with_fields(base: &Self, mass: Option<f64>, specific: Option<f64>) -> Result<Self, String> {
        let mut v = serde_json::to_value(base).unwrap();
        v["mass"] = json!(mass);
        v[Self::SPECIFIC] = json!(specific);
        Self::from_json(v.to_string()).map_err(|e| format!("{e:#}"))
    }
}
impl Comp for FuelConverter {
    const NAME: &'static str = "FuelConverter";
    const SPECIFIC: &'static str = "specific_pwr";
    const RATING: &'static str = "pwr_out_max_watts";
}
impl Comp for Generator {
    const NAME: &'static str = "Generator";
    const SPECIFIC: &'static str = "specific_pwr";
    const RATING: &'static str = "pwr_out_max_watts";
}
impl Comp for ReversibleEnergyStorage {
    const NAME: &'static str = "ReversibleEnergyStorage";
    const SPECIFIC: &'static str = "specific_energy";
    const RATING: &'static str = "energy_capacity_joules";
}

fn eff_name(e: &MassSideEffect) -> &'static str {
    match e {
        MassSideEffect::None => "None",
        MassSideEffect::Extensive => "Extensive",
        MassSideEffect::Intensive => "Intensive",
    }
}

fn comp_sequence<C: Comp>(ctx: &mut Ctx, rng: &mut Rng, base: &C) -> (bool, bool) {
    let rating = base.view().rating;
    // load from "file" with redundant mass data: consistent, inconsistent, partial
    let spec0 = rating / rng.lrange(500.0, 50_000.0);
    let (m0, s0) = match rng.usize(0, 4) {
        0 => (None, None),
        1 => (Some(rating / spec0), Some(spec0)),                        // consistent
        2 => (Some(rating / spec0 * rng.range(1.05, 2.0)), Some(spec0)), // inconsistent
        3 => (None, Some(spec0)),
        _ => (Some(rng.lrange(500.0, 50_000.0)), None),
    };
    let mut c = match C::with_fields(base, m0, s0) {
        Ok(c) => c,
        Err(_) => {
            ctx.count(&format!("obs.{}.load_rejected", C::NAME));
            if let (Some(m), Some(s)) = (m0, s0) {
                if close(m, rating / s, 1e-9, 0.0) {
                    ctx.violate("load_consistent_accepted", &format!("C20:{}:consistent_load_rejected", C::NAME), format!("{} with consistent mass {m} and {} {s} was rejected on load", C::NAME, C::SPECIFIC), json!({}));
                }
            }
            return (false, false);
        }
    };
    ctx.count(&format!("obs.{}.loaded", C::NAME));
    let loaded = c.view();
    if let (Some(m), Some(s)) = (m0, s0) {
        if !close(m, rating / s, 1e-7, 0.0) && loaded.mass_getter.is_ok() && C::NAME != "FuelConverter" {
            ctx.violate("load_inconsistent_rejected", &format!("C20:{}:inconsistent_load_accepted", C::NAME), format!("{} loaded with mass {m} but {}={s} gives {}", C::NAME, C::SPECIFIC, rating / s), json!({}));
        }
    }
    let (mut acc, mut rej) = (false, false);
    let both_known = loaded.mass_field.is_some() && loaded.specific.is_some();
    let mut log: Vec<Value> = vec![json!({"loaded": {"mass": m0, "specific": s0, "rating": rating}})];
    for _ in 0..rng.usize(1, 12) {
        let before = c.view();
        let call = rng.usize(0, 9);
        let (desc, r): (Value, anyhow::Result<()>) = if call == 0 {
            c.expunge_mass_fields();
            (json!("expunge_mass_fields"), Ok(()))
        } else {
            let newm = if rng.chance(0.15) {
                None
            } else if rng.chance(0.3) && before.specific.is_some() {
                Some(before.rating / before.specific.unwrap())
            } else if rng.chance(0.3) && before.specific.is_some() {
                // a re-weighing: next to the derived mass, from far below to just above every tolerance in the crate
                ctx.count("obs.component_set_mass_next_to_the_derived_mass");
                let d = *rng.pick(&[1e-10, 1e-7, 1e-5, 1e-4, 8e-4, 3e-3]) * if rng.chance(0.5) { 1.0 } else { -1.0 };
                Some(before.rating / before.specific.unwrap() * (1.0 + d))
            } else {
                Some(rng.lrange(500.0, 50_000.0))
            };
            let eff = match rng.usize(0, 2) {
                0 => MassSideEffect::None,
                1 => MassSideEffect::Extensive,
                _ => MassSideEffect::Intensive,
            };
            let d = json!({"set_mass": newm, "side_effect": eff_name(&eff)});
            let r = c.set_mass(newm.map(|m| uc::KG * m), eff.clone());
            // ---- option-specific postconditions (only for accepted calls)
            if r.is_ok() {
                let a = c.view();
                let mut bad = |ctx: &mut Ctx, clause: &str, msg: String| {
                    ctx.violate(clause, &format!("C20:{}:{clause}", C::NAME), format!("{} after set_mass({newm:?}, {}): {msg}", C::NAME, eff_name(&eff)), json!({"before": format!("{before:?}"), "after": format!("{a:?}")}));
                };
                ctx.count("obs.component_set_mass_accepted");
                if a.mass_field != newm {
                    bad(ctx, "mass_is_argument", format!("stored mass {:?}", a.mass_field));
                }
                match (newm, before.specific) {
                    (None, _) => {
                        if a.specific.is_some() || a.rating != before.rating {
                            bad(ctx, "clearing_mass_clears_specific", format!("specific {:?}, rating {} -> {}", a.specific, before.rating, a.rating));
                        }
                    }
                    (Some(m), Some(s)) if !(before.rating / s == m) => match eff {
                        MassSideEffect::Extensive => {
                            if a.specific != Some(s) || !close(a.rating, s * m, 1e-12, 0.0) {
                                bad(ctx, "extensive_side_effect", format!("expected specific kept {s} and rating {}; got {:?}, {}", s * m, a.specific, a.rating));
                            }
                        }
                        MassSideEffect::Intensive => {
                            if a.rating != before.rating || a.specific.map(|x| close(x, before.rating / m, 1e-12, 0.0)) != Some(true) {
                                bad(ctx, "intensive_side_effect", format!("expected rating kept {} and specific {}; got {}, {:?}", before.rating, before.rating / m, a.rating, a.specific));
                            }
                        }
                        MassSideEffect::None => {
                            if a.rating != before.rating || a.specific.is_some() {
                                bad(ctx, "none_side_effect", format!("expected rating kept and specific cleared; got {}, {:?}", a.rating, a.specific));
                            }
                        }
                    },
                    (Some(_), _) => {
                        if a.rating != before.rating || a.specific != before.specific {
                            bad(ctx, "no_side_effect_needed", format!("rating/specific changed although nothing was inconsistent: {} {:?} -> {} {:?}", before.rating, before.specific, a.rating, a.specific));
                        }
                    }
                }
            }
            (d, r)
        };
        let after = c.view();
        log.push(json!({"call": desc, "result": r.as_ref().map(|_| "Ok").map_err(|e| format!("{e:#}").chars().take(80).collect::<String>())}));
        match &r {
            Ok(()) => {
                acc = true;
                // invariants after an accepted call
                ctx.count("obs.component_invariants_checked");
                match &after.mass_getter {
                    Err(e) => ctx.violate("getter_ok_after_accepted", &format!("C20:{}:getter_errors_after_accepted", C::NAME), format!("{}: mass() errors after an accepted call: {e}", C::NAME), json!({"log": log})),
                    Ok(m) => {
                        if let (Some(m), Some(s)) = (m, after.specific) {
                            if !close(*m, after.rating / s, 1e-7, 0.0) {
                                ctx.violate("mass_eq_rating_over_specific", &format!("C20:{}:mass_ne_derived", C::NAME), format!("{}: mass {m} != rating/specific {}", C::NAME, after.rating / s), json!({"log": log}));
                            }
                        }
                    }
                }
            }
            Err(_) => {
                rej = true;
                ctx.count("obs.component_rejected_calls");
                if after != before {
                    ctx.violate("rejected_leaves_state", &format!("C20:{}:rejected_call_changed_state", C::NAME), format!("{}: a rejected call changed the object: {before:?} -> {after:?}", C::NAME), json!({"log": log}));
                }
            }
        }
    }
    (acc && both_known, rej)
}

// ---------------------------------------------------------------- locomotives

#[derive(Clone, Debug, PartialEq)]
struct LocoView {
    mass: Result<Option<f64>, String>,
    mu: Result<Option<f64>, String>,
    force: Result<f64, String>,
    f_mass: Option<f64>,
    f_mu: Option<f64>,
    f_force: f64,
    f_baseline: Option<f64>,
    f_ballast: Option<f64>,
}

fn lview(l: &Locomotive) -> LocoView {
    let v = serde_json::to_value(l).unwrap();
    let e = |e: anyhow::Error| -> String { format!("{e:#}").chars().take(100).collect() };
    LocoView {
        mass: l.mass().map(|m| m.map(|x| x.value)).map_err(e),
        mu: l.mu().map(|m| m.map(|x| x.value)).map_err(e),
        force: l.force_max().map(|f| f.value).map_err(e),
        f_mass: opt(&v, "mass"),
        f_mu: opt(&v, "mu"),
        f_force: opt(&v, "force_max").unwrap_or(f64::NAN),
        f_baseline: opt(&v, "baseline_mass"),
        f_ballast: opt(&v, "ballast_mass"),
    }
}

fn known_pattern(v: &LocoView) -> String {
    format!("mass={},mu={}", if v.f_mass.is_some() { "known" } else { "unknown" }, if v.f_mu.is_some() { "known" } else { "unknown" })
}

fn loco_sequence(ctx: &mut Ctx, rng: &mut Rng) -> (bool, bool) {
    let kind = if rng.chance(0.5) { Kind::Conv } else { Kind::Bel };
    // a fifth of the sequences run on the shipped hybrid unit (engine, generator and battery masses)
    let hybrid = rng.chance(0.2);
    if hybrid {
        ctx.count("obs.loco_sequences_on_a_hybrid_unit");
    }
    let base = if hybrid { Locomotive::default_hybrid_electric_loco() } else if kind == Kind::Conv { Locomotive::default() } else { Locomotive::default_battery_electric_loco() };
    // load from "file" with redundant data: mass / mu / force_max consistent or not
    let mut v = serde_json::to_value(&base).unwrap();
    let m0 = if rng.chance(0.8) { Some(rng.lrange(80e3, 250e3)) } else { None };
    let mu0 = if rng.chance(0.6) { Some(rng.range(0.15, 0.45)) } else { None };
    let consistent = rng.chance(0.7);
    let f0 = match (m0, mu0) {
        (Some(m), Some(mu)) if consistent => mu * m * G,
        _ => rng.lrange(2e5, 9e5),
    };
    v["mass"] = json!(m0);
    v["mu"] = json!(mu0);
    v["force_max"] = json!(f0);
    // redundant mass data: baseline + ballast + component masses, complete or partial, agreeing with `mass` or not
    let breakdown = rng.chance(0.35);
    let mut breakdown_log = json!(null);
    if breakdown {
        let complete = rng.chance(0.75);
        let comp_total = if hybrid { 3 } else if kind == Kind::Conv { 2 } else { 1 };
        let comps_set = if complete { comp_total } else { rng.usize(0, comp_total - 1) };
        let agree = rng.chance(0.7);
        let total = m0.unwrap_or_else(|| rng.lrange(80e3, 250e3));
        let part = total / (comp_total as f64 + 2.0);
        let (baseline, ballast) = if rng.chance(0.85) { (Some(part * 1.5), Some(part * 0.5)) } else if rng.chance(0.5) { (Some(part * 2.0), None) } else { (None, Some(part * 2.0)) };
        let comp_mass = if agree { part } else { part * rng.range(1.05, 1.6) };
        v["baseline_mass"] = json!(baseline);
        v["ballast_mass"] = json!(ballast);
        let lt = v["loco_type"].as_object_mut().unwrap().values_mut().next().unwrap();
        let names: &[&str] = if hybrid { &["fc", "gen", "res"] } else if kind == Kind::Conv { &["fc", "gen"] } else { &["res"] };
        for (i, n) in names.iter().enumerate() {
            if i < comps_set {
                lt[*n]["mass"] = json!(comp_mass);
                for k in ["specific_pwr", "specific_energy"] {
                    if lt[*n].get(k).is_some() {
                        lt[*n][k] = json!(null);
                    }
                }
            }
        }
        breakdown_log = json!({"baseline": baseline, "ballast": ballast, "component_masses_set": comps_set, "of": comp_total, "component_mass": comp_mass, "sum_agrees_with_mass": agree});
        ctx.count(if complete { "obs.loco_load_with_complete_breakdown" } else { "obs.loco_load_with_partial_breakdown" });
    }
    let mut l = match Locomotive::from_json(v.to_string()) {
        Ok(l) => l,
        Err(_) => {
            ctx.count("obs.loco_load_rejected");
            return (false, false);
        }
    };
    ctx.count("obs.loco_loaded");
    let (mut acc, mut rej) = (false, false);
    if breakdown {
        ctx.count("obs.loco_loaded_with_breakdown");
    }
    let mut log: Vec<Value> = vec![json!({"loaded": {"mass": m0, "mu": mu0, "force_max": f0, "kind": format!("{kind:?}"), "breakdown": breakdown_log}})];
    for _ in 0..rng.usize(1, 12) {
        let b = lview(&l);
        let pat = known_pattern(&b);
        let call = rng.usize(0, 12);
        if call >= 11 {
            // component-level update (environment step: the component cannot see the locomotive, so nothing is
            // demanded of the locomotive's getters right after it; later locomotive-level calls are judged)
            let m = if rng.chance(0.4) { None } else { Some(uc::KG * rng.lrange(2e3, 40e3)) };
            let which = rng.usize(0, 1);
            let r = if hybrid {
                match rng.usize(0, 2) {
                    0 => l.fuel_converter_mut().map(|c| c.set_mass(m, MassSideEffect::None)),
                    1 => l.generator_mut().map(|c| c.set_mass(m, MassSideEffect::None)),
                    _ => l.reversible_energy_storage_mut().map(|c| c.set_mass(m, MassSideEffect::None)),
                }
            } else {
                match (kind == Kind::Conv, which) {
                    (true, 0) => l.fuel_converter_mut().map(|c| c.set_mass(m, MassSideEffect::None)),
                    (true, _) => l.generator_mut().map(|c| c.set_mass(m, MassSideEffect::None)),
                    (false, _) => l.reversible_energy_storage_mut().map(|c| c.set_mass(m, MassSideEffect::None)),
                }
            };
            let ok = matches!(r, Some(Ok(())));
            log.push(json!({"component_call": "set_mass", "component": if kind == Kind::Conv { if which == 0 { "fc" } else { "gen" } } else { "res" }, "mass": m.map(|x| x.value), "accepted": ok}));
            ctx.count(&format!("obs.loco_component_set_mass.{}", if ok { "accepted" } else { "rejected" }));
            continue;
        }
        let (name, opt_name, r): (&str, String, anyhow::Result<()>) = match call {
            0 | 1 => {
                let m = if rng.chance(0.1) { None } else { Some(rng.lrange(80e3, 250e3)) };
                let r = l.set_mass(m.map(|x| uc::KG * x), MassSideEffect::None);
                if let (Ok(()), Some(mv)) = (&r, m) {
                    // an accepted set_mass(Some(m)) makes m the reported mass
                    let a = lview(&l);
                    if !matches!(a.mass, Ok(Some(got)) if close(got, mv, 1e-12, 0.0)) {
                        ctx.violate("mass_is_argument", "C20:Locomotive:mass_is_argument", format!("set_mass(Some({mv})) was accepted but mass() reports {:?}", a.mass), json!({"log": log}));
                    }
                }
                ("set_mass", format!("{}", if m.is_some() { "Some" } else { "None" }), r)
            }
            2 => ("set_mass", "Extensive(not allowed)".into(), l.set_mass(Some(uc::KG * 1e5), MassSideEffect::Extensive)),
            3 | 4 | 5 => {
                let f = rng.lrange(2e5, 9e5);
                let (se, n) = match rng.usize(0, 4) {
                    0 => (ForceMaxSideEffect::Mass, "Mass"),
                    1 => (ForceMaxSideEffect::UpdateMu, "UpdateMu"),
                    2 => (ForceMaxSideEffect::SetMuToNone, "SetMuToNone"),
                    3 => (ForceMaxSideEffect::SetMassToNone, "SetMassToNone"),
                    _ => (ForceMaxSideEffect::SetMassAndMuToNone, "SetMassAndMuToNone"),
                };
                let r = l.set_force_max(uc::N * f, se);
                if r.is_ok() {
                    let a = lview(&l);
                    if !close(a.f_force, f, 1e-12, 0.0) {
                        ctx.violate("force_is_argument", "C20:Locomotive:force_is_argument", format!("set_force_max({f}, {n}) stored {}", a.f_force), json!({"log": log}));
                    }
                    match n {
                        "Mass" => {
                            if a.f_mu != b.f_mu {
                                ctx.violate("side_effect", "C20:Locomotive:set_force_max_Mass_changed_mu", "mu changed".into(), json!({"log": log}));
                            }
                        }
                        "UpdateMu" => {
                            if a.f_mass != b.f_mass {
                                ctx.violate("side_effect", "C20:Locomotive:set_force_max_UpdateMu_changed_mass", "mass changed".into(), json!({"log": log}));
                            }
                        }
                        _ => {}
                    }
                }
                ("set_force_max", n.to_string(), r)
            }
            6 | 7 | 8 => {
                let mu = rng.range(0.15, 0.45);
                let (se, n) = match rng.usize(0, 2) {
                    0 => (MuSideEffect::Mass, "Mass"),
                    1 => (MuSideEffect::ForceMax, "ForceMax"),
                    _ => (MuSideEffect::SetMassToNone, "SetMassToNone"),
                };
                let r = l.set_mu(uc::R * mu, se);
                if r.is_ok() {
                    let a = lview(&l);
                    if a.f_mu != Some(mu) {
                        ctx.violate("mu_is_argument", "C20:Locomotive:mu_is_argument", format!("set_mu({mu}, {n}) stored {:?}", a.f_mu), json!({"log": log}));
                    }
                    if n == "Mass" && !close(a.f_force, b.f_force, 1e-12, 0.0) {
                        ctx.violate("side_effect", "C20:Locomotive:set_mu_Mass_changed_force", "force changed".into(), json!({"log": log}));
                    }
                    if n == "ForceMax" && a.f_mass != b.f_mass {
                        ctx.violate("side_effect", "C20:Locomotive:set_mu_ForceMax_changed_mass", "mass changed".into(), json!({"log": log}));
                    }
                }
                ("set_mu", n.to_string(), r)
            }
            _ => {
                l.expunge_mass_fields();
                ("expunge_mass_fields", String::new(), Ok(()))
            }
        };
        let a = lview(&l);
        log.push(json!({"call": name, "option": opt_name, "known_before": pat, "result": r.as_ref().map(|_| "Ok").map_err(|e| format!("{e:#}").chars().take(100).collect::<String>())}));
        ctx.count(&format!("obs.loco_call.{name}.{opt_name}.{}", if r.is_ok() { "accepted" } else { "rejected" }));
        match &r {
            Ok(()) => {
                acc = true;
                ctx.count("obs.loco_invariants_checked");
                if b.mass.is_err() || b.mu.is_err() || b.force.is_err() {
                    // getters already failed before this call (object loaded inconsistent): nothing to hold the call to
                    ctx.count("obs.loco_call_on_inconsistent_object");
                } else if a.mass.is_err() || a.mu.is_err() || a.force.is_err() {
                    ctx.violate("getter_ok_after_accepted", &format!("C20:Locomotive:getter_errors_after_accepted:{name}:{opt_name}:{pat}"),
                        format!("after accepted {name}({opt_name}) with {pat}: mass() {:?}, mu() {:?}, force_max() {:?}", a.mass.as_ref().err(), a.mu.as_ref().err(), a.force.as_ref().err()), json!({"log": log, "after": format!("{a:?}")}));
                } else if let (Ok(Some(m)), Ok(Some(mu)), Ok(f)) = (&a.mass, &a.mu, &a.force) {
                    if !close(*f, mu * m * G, 1e-7, 0.0) {
                        ctx.violate("force_eq_mu_mass_g", &format!("C20:Locomotive:force_ne_mu_mass_g:{name}:{opt_name}"), format!("force_max {f} != mu {mu} * mass {m} * g = {}", mu * m * G), json!({"log": log}));
                    }
                }
            }
            Err(_) => {
                rej = true;
                ctx.count("obs.loco_rejected_calls");
                let same = |x: &Result<Option<f64>, String>, y: &Result<Option<f64>, String>| x.is_err() || x == y;
                let same_f = |x: &Result<f64, String>, y: &Result<f64, String>| x.is_err() || x == y;
                let fields_same = b.f_mass == a.f_mass && b.f_mu == a.f_mu && (b.f_force == a.f_force || (b.f_force.is_nan() && a.f_force.is_nan())) && b.f_baseline == a.f_baseline && b.f_ballast == a.f_ballast;
                if !fields_same {
                    ctx.violate("rejected_leaves_state", &format!("C20:Locomotive:rejected_call_half_applied:{name}:{opt_name}:{pat}"),
                        format!("rejected {name}({opt_name}) with {pat} changed stored fields: mass {:?} -> {:?}, mu {:?} -> {:?}, force_max {} -> {}", b.f_mass, a.f_mass, b.f_mu, a.f_mu, b.f_force, a.f_force), json!({"log": log}));
                    break;
                }
                if !(same(&b.mass, &a.mass) && same(&b.mu, &a.mu) && same_f(&b.force, &a.force)) {
                    ctx.violate("rejected_leaves_state", &format!("C20:Locomotive:rejected_call_half_applied:{name}:{opt_name}:{pat}"),
                        format!("rejected {name}({opt_name}) with {pat} changed what getters report: mass {:?} -> {:?}, mu {:?} -> {:?}, force_max {:?} -> {:?}", b.mass, a.mass, b.mu, a.mu, b.force, a.force), json!({"log": log}));
                    break; // the object is corrupt from here on: later alarms would only be echoes
                }
            }
        }
    }
    (acc, rej)
}

// ---------------------------------------------------------------- consist / train

fn consist_and_train(ctx: &mut Ctx, rng: &mut Rng) {
    let n = rng.usize(1, 8);
    let mut locos = vec![];
    let mut msum = 0.0;
    let mut fsum = 0.0;
    let all_none = rng.chance(0.15);
    for _ in 0..n {
        let kind = if rng.chance(0.5) { Kind::Conv } else { Kind::Bel };
        let base = if kind == Kind::Conv { Locomotive::default() } else { Locomotive::default_battery_electric_loco() };
        let mut v = serde_json::to_value(&base).unwrap();
        let m = rng.lrange(80e3, 250e3);
        let f = rng.lrange(2e5, 9e5);
        v["mass"] = if all_none { json!(null) } else { json!(m) };
        v["mu"] = json!(null);
        v["force_max"] = json!(f);
        let l = Locomotive::from_json(v.to_string()).expect("loco json");
        msum += m;
        fsum += f;
        locos.push(l);
    }
    let mut con = Consist::new(locos, None, Default::default());
    ctx.count("obs.consists");
    match con.mass() {
        Ok(m) => {
            let want = if all_none { None } else { Some(msum) };
            let got = m.map(|x| x.value);
            let ok = match (got, want) {
                (None, None) => true,
                (Some(a), Some(b)) => close(a, b, 1e-12, 0.0),
                _ => false,
            };
            if !ok {
                ctx.violate("consist_mass_is_sum", "C20:Consist:mass_ne_sum", format!("consist mass {got:?} != sum over units {want:?}"), json!({"units": n}));
            }
        }
        Err(e) => ctx.violate("consist_mass_is_sum", "C20:Consist:mass_errors", format!("consist mass() errors: {e:#}"), json!({"units": n})),
    }
    match con.force_max() {
        Ok(f) => {
            if !close(f.value, fsum, 1e-12, 0.0) {
                ctx.violate("consist_force_is_sum", "C20:Consist:force_ne_sum", format!("consist force_max {} != sum over units {fsum}", f.value), json!({"units": n}));
            }
        }
        Err(e) => ctx.violate("consist_force_is_sum", "C20:Consist:force_errors", format!("consist force_max() errors: {e:#}"), json!({})),
    }
    // a unit updated in place (accepted setter on a member of the consist): the consist's force is the sum again
    {
        let k = rng.usize(0, n - 1);
        let f_new = rng.lrange(2e5, 9e5);
        let f_old = con.loco_vec[k].force_max().map(|f| f.value).unwrap_or(f64::NAN);
        if con.loco_vec[k].set_force_max(uc::N * f_new, ForceMaxSideEffect::SetMuToNone).is_ok() {
            ctx.count("obs.consist_units_updated_in_place");
            let want = fsum - f_old + f_new;
            match con.force_max() {
                Ok(f) => {
                    if !close(f.value, want, 1e-12, 0.0) {
                        ctx.violate("consist_force_is_sum", "C20:Consist:force_ne_sum_after_unit_update", format!("after set_force_max on unit {k}: consist force_max {} != sum over units {want}", f.value), json!({"units": n}));
                    }
                }
                Err(e) => ctx.violate("consist_force_is_sum", "C20:Consist:force_errors", format!("consist force_max() errors after a unit update: {e:#}"), json!({})),
            }
        }
    }
    // train static mass = cars (or override) + consist
    let spec = gt::train(rng, &[TrainType::Freight], 2000.0, 0.0);
    let cm = {
        use altrios_core::traits::Mass;
        spec.consist.mass().ok().flatten().map(|m| m.value).unwrap_or(0.0)
    };
    let b = TrainSimBuilder::new("t".into(), spec.config.clone(), spec.consist.clone(), Some("A".into()), Some("B".into()), None);
    let mut lm = std::collections::HashMap::new();
    lm.insert("A".to_string(), vec![gt::location("A", 1)]);
    lm.insert("B".to_string(), vec![gt::location("B", 1)]);
    if let Ok(sim) = b.make_speed_limit_train_sim(&lm, None, None, None) {
        ctx.count("obs.trains_built");
        let cars: f64 = spec.config.rail_vehicles.iter().map(|r| (r.mass_static_base.value + r.mass_freight.value) * *spec.config.n_cars_by_type.get(&r.car_type).unwrap() as f64).sum();
        let towed = spec.config.train_mass.map(|m| m.value).unwrap_or(cars);
        if !close(sim.state.mass_static.value, towed + cm, 1e-12, 0.0) {
            ctx.violate("train_mass_static", "C20:Train:mass_static", format!("train mass_static {} != cars-or-override {towed} + consist {cm}", sim.state.mass_static.value), json!({"override": spec.config.train_mass.map(|m| m.value)}));
        }
        if spec.config.train_mass.is_some() {
            ctx.count("obs.trains_with_mass_override");
        }
    }
}

pub fn run_c20(ctx: &mut Ctx, rng: &mut Rng, _t: bool) {
    let which = rng.usize(0, 9);
    let (acc, rej) = match which {
        0 | 1 => {
            let base = gp::fuel_converter(rng);
            comp_sequence::<FuelConverter>(ctx, rng, &base)
        }
        2 => {
            let base = gp::generator(rng, 1e6);
            comp_sequence::<Generator>(ctx, rng, &base)
        }
        3 | 4 => {
            let base = gp::res(rng);
            comp_sequence::<ReversibleEnergyStorage>(ctx, rng, &base)
        }
        5 | 6 | 7 => loco_sequence(ctx, rng),
        _ => {
            consist_and_train(ctx, rng);
            (false, false)
        }
    };
    if acc && rej {
        ctx.rep.nontrivial(mix(hash_f64s(&[ctx.case as f64, which as f64])));
    }
    if ctx.rep.samples.len() < 3 {
        ctx.rep.sample(json!({"sequence_kind": match which { 0 | 1 => "FuelConverter", 2 => "Generator", 3 | 4 => "ReversibleEnergyStorage", 5 | 6 | 7 => "Locomotive", _ => "Consist+Train" }, "had_accepted_call": acc, "had_rejected_call": rej}));
    }
    let _ = PowertrainType::DummyLoco;
}
