//! C02 / C13 (enforced speed profile vs reference step function built from the network) and
//! C06 (path geometry vs reference walk over the route's own elevation / heading / catenary points).
use crate::gen::network::{self as gn, GenNet, NetOpts};
use crate::panics;
use altrios_core::traits::SerdeAPI;
use std::panic::AssertUnwindSafe;
use crate::report::{close, jf, Ctx};
use crate::rng::{hash_f64s, mix, Rng};
use altrios_core::track::{
    CompareType, LimitType, Link, LinkIdx, PathTpc, SpeedSet, TrainParams, TrainType,
};
use altrios_core::uc;
use serde_json::{json, Value};

// ---------------------------------------------------------------- reference model (speed)

pub fn ref_compare<T: PartialOrd + PartialEq>(c: CompareType, train: T, lim: T) -> bool {
    match c {
        CompareType::TpEqualRp => train == lim,
        CompareType::TpGreaterThanRp => train > lim,
        CompareType::TpLessThanRp => train < lim,
        CompareType::TpGreaterThanEqualRp => train >= lim,
        CompareType::TpLessThanEqualRp => train <= lim,
    }
}

/// own re-implementation of the speed_params gate: a set applies iff every condition holds
pub fn ref_set_applies(tp: &TrainParams, set: &SpeedSet) -> bool {
    set.speed_params.iter().all(|p| match p.limit_type {
        LimitType::MassTotal => ref_compare(p.compare_type, tp.towed_mass_static.value, p.limit_val),
        LimitType::MassPerBrake => ref_compare(p.compare_type, tp.mass_per_brake.value, p.limit_val),
        LimitType::AxleCount => ref_compare(p.compare_type, tp.axle_count, p.limit_val as u32),
    })
}

pub fn ref_pick_set<'a>(link: &'a Link, tp: &TrainParams) -> Option<&'a SpeedSet> {
    match &link.speed_set {
        Some(s) => Some(s),
        None => link.speed_sets.get(&tp.train_type),
    }
}

#[derive(Clone, Copy, Debug)]
pub struct Cover {
    pub start: f64,
    pub end: f64,
    pub speed: f64,
    pub link_pos: usize,
    pub tail: bool,
}

/// posted restrictions along a route in path coordinates; `None` if some link has no set for the train type
pub fn ref_covers(links: &[Link], route: &[LinkIdx], tp: &TrainParams) -> Option<Vec<Cover>> {
    let mut covers = vec![];
    let mut base = 0.0f64;
    for (pos, li) in route.iter().enumerate() {
        let link = &links[li.idx()];
        let set = ref_pick_set(link, tp)?;
        if ref_set_applies(tp, set) {
            let ltail = if set.is_head_end { 0.0 } else { tp.length.value };
            for r in &set.speed_limits {
                covers.push(Cover {
                    start: r.offset_start.value + base,
                    end: r.offset_end.value + base + ltail, // same association as the implementation
                    speed: r.speed.value,
                    link_pos: pos,
                    tail: !set.is_head_end,
                });
            }
        }
        base += link.length.value;
    }
    Some(covers)
}

pub fn ref_limit(covers: &[Cover], vmax: f64, x: f64) -> f64 {
    let mut v = vmax;
    for c in covers {
        if c.start <= x && x < c.end && c.speed < v {
            v = c.speed;
        }
    }
    v
}

/// enforced step function read from PathTpc::speed_points(): last point with offset <= x
pub fn enforced_at(pts: &[(f64, f64)], x: f64) -> f64 {
    let mut v = f64::NAN;
    for (o, s) in pts {
        if *o <= x {
            v = *s;
        }
    }
    v
}

pub fn eval_points(covers: &[Cover], pts: &[(f64, f64)]) -> Vec<f64> {
    let mut b: Vec<f64> = vec![0.0];
    for c in covers {
        b.push(c.start);
        b.push(c.end);
    }
    for (o, _) in pts {
        b.push(*o);
    }
    b.retain(|x| x.is_finite() && *x >= 0.0);
    b.sort_by(|a, b| a.partial_cmp(b).unwrap());
    b.dedup();
    let mut xs = vec![];
    for w in 0..b.len() {
        xs.push(b[w]);
        if w + 1 < b.len() {
            xs.push(b[w] + (b[w + 1] - b[w]) / 2.0);
        }
    }
    xs.push(b.last().unwrap() + 10.0);
    xs
}

/// Train parameters as users get them: derived by the crate from a train make-up (`TrainConfig::make_train_params`),
/// with two or three car types of which some may be listed with zero cars, in any position of the list. The train's
/// own maximum speed is that of its slowest car type *present*; what the crate derives may never exceed it (a
/// higher value would be enforced as the limit wherever nothing slower is posted). The returned parameters carry the
/// independently derived maximum, so the profile comparison that follows is made against the true value as well.
pub fn train_params_from_config(ctx: &mut Ctx, rng: &mut Rng, types: &[TrainType]) -> TrainParams {
    use crate::gen::train::rail_vehicle;
    let ntypes = rng.usize(2, 3);
    let mut rvs: Vec<altrios_core::train::RailVehicle> = vec![];
    while rvs.len() < ntypes {
        let mut rv = rail_vehicle(rng);
        rv.speed_max = uc::MPS * *rng.pick(&[11.0, 13.4, 17.9, 22.35, 25.0, 31.3, 40.0]);
        if !rvs.iter().any(|r| r.car_type == rv.car_type) {
            rvs.push(rv);
        }
    }
    let mut n_by: std::collections::HashMap<String, u32> = std::collections::HashMap::new();
    let zero_at = if rng.chance(0.6) { Some(rng.usize(0, ntypes - 1)) } else { None };
    for (k, rv) in rvs.iter().enumerate() {
        n_by.insert(rv.car_type.clone(), if zero_at == Some(k) { 0 } else { rng.usize(1, 60) as u32 });
    }
    let present: Vec<&altrios_core::train::RailVehicle> = rvs.iter().filter(|r| n_by[&r.car_type] > 0).collect();
    let own_max = present.iter().map(|r| r.speed_max.value).fold(f64::INFINITY, f64::min);
    let own_len: f64 = present.iter().map(|r| r.length.value * n_by[&r.car_type] as f64).sum();
    let own_axles: u32 = present.iter().map(|r| r.axle_count as u32 * n_by[&r.car_type]).sum();
    let cfg = match altrios_core::train::TrainConfig::new(rvs.clone(), n_by.clone(), *rng.pick(types), None, None, None) {
        Ok(c) => c,
        Err(_) => return train_params(rng, types),
    };
    ctx.count("obs.train_params_from_make_up");
    if zero_at.is_some() {
        ctx.count("obs.train_params_from_make_up_with_an_absent_car_type");
    }
    match cfg.make_train_params() {
        Ok(mut tp) => {
            let desc = json!({"car_types": rvs.iter().map(|r| json!({"type": r.car_type, "cars": n_by[&r.car_type], "speed_max": r.speed_max.value})).collect::<Vec<_>>()});
            if !(tp.speed_max.value <= own_max) {
                ctx.violate("train_own_max_speed", "C02:train_max_speed_above_slowest_car_present", format!("make_train_params gives the train a maximum speed of {} m/s, its slowest car type present allows {own_max} m/s", tp.speed_max.value), desc.clone());
            }
            if ctx.prop == "C13" && (tp.speed_max.value != own_max || !close(tp.length.value, own_len, 1e-12, 0.0) || tp.axle_count != own_axles) {
                ctx.violate("train_params_from_make_up", "C13:train_params_differ_from_make_up", format!("make_train_params gives (speed_max {}, length {}, axles {}), the make-up gives ({own_max}, {own_len}, {own_axles})", tp.speed_max.value, tp.length.value, tp.axle_count), desc);
            }
            tp.speed_max = uc::MPS * own_max;
            tp
        }
        Err(_) => train_params(rng, types),
    }
}

pub fn train_params(rng: &mut Rng, types: &[TrainType]) -> TrainParams {
    let cars = rng.usize(5, 150);
    let length = if rng.chance(0.6) { (cars as f64 * 18.5 * 2.0).round() / 2.0 } else { rng.range(50.0, 3000.0) };
    let mass_car = *rng.pick(&[30.0e3, 90.0e3, 129727.4121, 143.0e3]);
    TrainParams {
        length: uc::M * length,
        speed_max: uc::MPS * *rng.pick(&[11.0, 17.9, 22.35, 25.0, 31.3, 40.0]),
        towed_mass_static: uc::KG * mass_car * cars as f64,
        mass_per_brake: uc::KG * mass_car,
        axle_count: (cars * 4) as u32,
        train_type: *rng.pick(types),
        curve_coeff_0: uc::R * *rng.pick(&[0.0, 0.0008, 0.04]),
        curve_coeff_1: uc::R * *rng.pick(&[0.0, 0.0004, 0.02]),
        curve_coeff_2: uc::R * *rng.pick(&[0.0, 0.0, 1e-3]),
    }
}

/// cut points of a route into successive extend calls: `mask` bit i set => cut after link i
pub fn build_path(links: &[Link], route: &[LinkIdx], tp: &TrainParams, mask: u64) -> anyhow::Result<PathTpc> {
    let mut p = PathTpc::new(*tp);
    let mut start = 0;
    for i in 0..route.len() {
        let cut = i + 1 == route.len() || (mask >> i) & 1 == 1;
        if cut {
            p.extend(links, &route[start..=i])?;
            start = i + 1;
        }
    }
    Ok(p)
}

fn route_json(net: &GenNet, route: &[LinkIdx], tp: &TrainParams) -> Value {
    let ls: Vec<Value> = route
        .iter()
        .map(|li| {
            let l = &net.links[li.idx()];
            let set = ref_pick_set(l, tp);
            json!({"idx": li.idx(), "length_m": l.length.value,
                "set": set.map(|s| json!({"head_end": s.is_head_end, "applies": ref_set_applies(tp, s),
                    "params": s.speed_params.iter().map(|p| format!("{:?} {:?} {}", p.limit_type, p.compare_type, p.limit_val)).collect::<Vec<_>>(),
                    "limits": s.speed_limits.iter().map(|r| json!([r.offset_start.value, r.offset_end.value, r.speed.value])).collect::<Vec<_>>()})),
                "elevs": l.elevs.iter().map(|e| json!([e.offset.value, e.elev.value])).collect::<Vec<_>>(),
                "headings": l.headings.iter().map(|h| json!([h.offset.value, h.heading.value])).collect::<Vec<_>>(),
                "cat": l.cat_power_limits.iter().map(|c| json!([c.offset_start.value, c.offset_end.value, c.power_limit.value])).collect::<Vec<_>>()})
        })
        .collect();
    json!({"train": {"length_m": tp.length.value, "speed_max": tp.speed_max.value, "towed_mass_kg": tp.towed_mass_static.value,
        "mass_per_brake_kg": tp.mass_per_brake.value, "axles": tp.axle_count, "type": format!("{:?}", tp.train_type)},
        "route": ls, "flags": net.flags})
}

/// classify the pattern of a C13 "lower than necessary" deviation for exact known-finding keys
fn classify_too_low(covers: &[Cover], pts: &[(f64, f64)], x: f64) -> &'static str {
    // the restriction whose value is being enforced at x although it has ended
    let enf = enforced_at(pts, x);
    let ended: Vec<&Cover> = covers.iter().filter(|c| c.speed == enf && c.end <= x).collect();
    if ended.is_empty() {
        return "other";
    }
    "ended_restriction_still_enforced"
}

pub fn check_speed_profile(ctx: &mut Ctx, net: &GenNet, route: &[LinkIdx], tp: &TrainParams, p: &PathTpc, how: &str) -> (bool, bool) {
    let covers = match ref_covers(&net.links, route, tp) {
        Some(c) => c,
        None => return (false, false),
    };
    let vmax = tp.speed_max.value;
    let pts: Vec<(f64, f64)> = p.speed_points().iter().map(|s| (s.offset.value, s.speed_limit.value)).collect();
    let xs = eval_points(&covers, &pts);
    // zero-length restrictions are a flagged sub-domain: two points may then share an offset
    let zero_len = covers.iter().any(|c| c.start == c.end) || route.iter().any(|li| {
        ref_pick_set(&net.links[li.idx()], tp).map(|s| s.speed_limits.iter().any(|r| r.offset_start == r.offset_end)).unwrap_or(false)
    });
    let mut bad02 = false;
    let mut bad13 = false;
    for &x in &xs {
        let e = enforced_at(&pts, x);
        let r = ref_limit(&covers, vmax, x);
        ctx.count("obs.points_compared");
        if !(e <= r) && !bad02 {
            bad02 = true;
            if ctx.prop == "C02" {
                ctx.violate("enforced_le_posted", "C02:enforced_le_posted",
                    format!("[{how}] at x={x} enforced limit {e} > tightest posted restriction / train max {r}"),
                    json!({"x": x, "enforced": jf(e), "reference": r, "how": how, "speed_points": pts, "case": route_json(net, route, tp)}));
            }
        }
        if e != r && !bad13 {
            bad13 = true;
            if ctx.prop == "C13" {
                let (clause, sig) = if e < r {
                    let pat = classify_too_low(&covers, &pts, x);
                    ("enforced_eq_tightest", format!("C13:enforced_lower_than_necessary:{pat}"))
                } else {
                    ("enforced_eq_tightest", "C13:enforced_higher_than_posted".to_string())
                };
                ctx.violate(clause, &sig,
                    format!("[{how}] at x={x} enforced limit {e} != min(train max, covering restrictions) {r}"),
                    json!({"x": x, "enforced": jf(e), "reference": r, "how": how, "speed_points": pts, "case": route_json(net, route, tp)}));
            }
        }
    }
    if ctx.prop == "C02" && pts.iter().any(|(_, s)| *s > vmax) {
        ctx.violate("enforced_le_train_max", "C02:enforced_le_train_max", format!("[{how}] a profile point exceeds the train's maximum speed {vmax}"), json!({"speed_points": pts}));
    }
    if ctx.prop == "C13" {
        ctx.count("obs.canonical_form");
        let sorted = pts.windows(2).all(|w| if zero_len { w[0].0 <= w[1].0 } else { w[0].0 < w[1].0 });
        let no_dup = pts.windows(2).all(|w| w[0].1 != w[1].1);
        if !sorted {
            ctx.violate("canonical_sorted", "C13:canonical_sorted", format!("[{how}] speed point offsets are not strictly increasing"), json!({"speed_points": pts, "case": route_json(net, route, tp)}));
        }
        if !no_dup && !zero_len {
            ctx.violate("canonical_no_redundant", "C13:canonical_no_redundant", format!("[{how}] two neighbouring speed points carry the same limit"), json!({"speed_points": pts, "case": route_json(net, route, tp)}));
        }
    }
    (bad02, bad13)
}

fn nontrivial_speed(net: &GenNet, route: &[LinkIdx], tp: &TrainParams) -> bool {
    // >= 2 restrictions on one link that are not disjoint, or a tail-end restriction crossing a link boundary
    let covers = match ref_covers(&net.links, route, tp) {
        Some(c) => c,
        None => return false,
    };
    let vmax = tp.speed_max.value;
    let act: Vec<&Cover> = covers.iter().filter(|c| c.speed < vmax).collect();
    let mut base = vec![0.0];
    for li in route {
        base.push(base.last().unwrap() + net.links[li.idx()].length.value);
    }
    for (i, a) in act.iter().enumerate() {
        if a.tail && route.len() > a.link_pos + 1 && a.end > base[a.link_pos + 1] {
            return true;
        }
        for b in act.iter().skip(i + 1) {
            if a.link_pos == b.link_pos && a.start < b.end && b.start < a.end {
                return true;
            }
        }
    }
    false
}

fn route_sig(net: &GenNet, route: &[LinkIdx], tp: &TrainParams) -> u64 {
    let mut v = vec![tp.length.value, tp.speed_max.value, tp.towed_mass_static.value];
    for li in route {
        let l = &net.links[li.idx()];
        v.push(l.length.value);
        if let Some(s) = ref_pick_set(l, tp) {
            for r in &s.speed_limits {
                v.extend([r.offset_start.value, r.offset_end.value, r.speed.value]);
            }
            v.push(if s.is_head_end { 1.0 } else { 0.0 });
        }
        for e in &l.elevs {
            v.extend([e.offset.value, e.elev.value]);
        }
    }
    mix(hash_f64s(&v))
}

fn schedules(rng: &mut Rng, n: usize, thorough: bool) -> Vec<u64> {
    // mask bits 0..n-2; 0 = one shot; all ones = link by link
    if n <= 1 {
        return vec![0];
    }
    let full = (1u64 << (n - 1)) - 1;
    let exhaustive_limit = if thorough { 8 } else { 5 };
    if n <= exhaustive_limit {
        (0..=full).collect()
    } else {
        let mut v = vec![0, full];
        for _ in 0..6 {
            v.push(rng.next_u64() & full);
        }
        v
    }
}

pub fn run_speed(ctx: &mut Ctx, rng: &mut Rng, thorough: bool) {
    let mut o = NetOpts::path_default(rng);
    o.zero_len = rng.chance(0.1);
    o.overhang = rng.chance(0.1);
    let net = gn::network(rng, &o);
    if let Err(e) = gn::validate(&net.links) {
        ctx.count("gen.network_rejected_by_validation");
        ctx.rep.diag(json!({"case": ctx.case, "generated_network_rejected": e}));
        return;
    }
    // A network whose links all carry typed speed sets can also be written in the legacy file layout. Half of those
    // are: the simulator then works on what `Network::from_file` makes of the legacy file, the reference keeps
    // working on the network as generated, so that anything the conversion loses or alters shows in the profile.
    let mut legacy_links: Option<Vec<Link>> = None;
    if rng.chance(0.5) {
        if let Some(old) = serde_yaml::to_value(altrios_core::track::Network(net.links.clone())).ok().and_then(|v| crate::mon::netval::to_legacy(&v)) {
            let dir = std::env::temp_dir().join(format!("altrios-verif-{}", std::process::id()));
            let _ = std::fs::create_dir_all(&dir);
            let f = dir.join(format!("legacy_speed_{}.yaml", ctx.case));
            if let Ok(text) = serde_yaml::to_string(&old) {
                if std::fs::write(&f, text).is_ok() {
                    match panics::guard(AssertUnwindSafe(|| altrios_core::track::Network::from_file(&f))) {
                        Ok(Ok(loaded)) if loaded.0.len() == net.links.len() => {
                            ctx.count("obs.networks_passed_through_a_legacy_layout_file");
                            legacy_links = Some(loaded.0);
                        }
                        _ => ctx.count("obs.legacy_layout_file_not_loaded"),
                    }
                    let _ = std::fs::remove_file(&f);
                }
            }
        }
    }
    let code_links: Vec<Link> = legacy_links.unwrap_or_else(|| net.links.clone());
    ctx.rep.evaluations -= 1; // evaluations are counted per (route, train) pair
    for _ in 0..4 {
        ctx.rep.evaluations += 1;
        let tp = if rng.chance(0.3) { train_params_from_config(ctx, rng, &net.train_types) } else { train_params(rng, &net.train_types) };
        let reverse = rng.chance(0.3);
        let full = rng.chance(0.5);
        let route = net.route(rng, reverse, full);
        let sch = schedules(rng, route.len(), thorough);
        let mut any = false;
        for (k, mask) in sch.iter().enumerate() {
            match build_path(&code_links, &route, &tp, *mask) {
                Ok(p) => {
                    any = true;
                    ctx.count("obs.paths_built");
                    let how = if *mask == 0 { "one extend call".to_string() } else { format!("extension schedule mask {mask:#b}") };
                    let (b2, b13) = check_speed_profile(ctx, &net, &route, &tp, &p, &how);
                    if (b2 || b13) && k > 0 {
                        ctx.count("obs.deviation_only_under_extension");
                    }
                }
                Err(_) => {
                    ctx.count("obs.extend_err");
                }
            }
        }
        if any {
            ctx.count("obs.routes");
            if nontrivial_speed(&net, &route, &tp) {
                ctx.rep.nontrivial(route_sig(&net, &route, &tp));
            }
            if ctx.rep.samples.len() < 2 && route.len() >= 2 {
                ctx.rep.sample(json!({"what": "route + train; enforced profile compared with reference at every breakpoint and midpoint, for every extension schedule listed",
                    "schedules": sch.len(), "case": route_json(&net, &route, &tp)}));
            }
        }
    }
}

// ---------------------------------------------------------------- C06 geometry

struct RefGeom {
    bounds: Vec<f64>,                // link boundaries (cumulative lengths)
    elev_pts: Vec<(f64, f64)>,       // path offset, walked elevation
    curve_pts: Vec<(f64, f64, f64)>, // path offset, cumulative curve resistance, coeff of the piece starting here
    cats: Vec<(f64, f64, f64)>,
    /// (path x0, path x1, slope computed from the link-local points)
    elev_pieces: Vec<(f64, f64, f64)>,
}

fn ref_geometry(links: &[Link], route: &[LinkIdx], tp: &TrainParams) -> RefGeom {
    let mut bounds = vec![0.0];
    let mut elev_pts: Vec<(f64, f64)> = vec![];
    let mut curve_pts: Vec<(f64, f64, f64)> = vec![];
    let mut cats = vec![];
    let mut elev_pieces = vec![];
    let mut base = 0.0;
    let mut z = links[route[0].idx()].elevs.first().map(|e| e.elev.value).unwrap_or(0.0);
    let mut c = 0.0;
    elev_pts.push((0.0, z));
    for li in route {
        let l = &links[li.idx()];
        if l.elevs.is_empty() {
            elev_pts.push((base + l.length.value, z));
        } else {
            for w in l.elevs.windows(2) {
                z += w[1].elev.value - w[0].elev.value;
                elev_pts.push((base + w[1].offset.value, z));
                elev_pieces.push((base + w[0].offset.value, base + w[1].offset.value,
                    (w[1].elev.value - w[0].elev.value) / (w[1].offset.value - w[0].offset.value)));
            }
        }
        if l.headings.is_empty() {
            curve_pts.push((base, c, 0.0));
        } else {
            for w in l.headings.windows(2) {
                let len = w[1].offset.value - w[0].offset.value;
                let d = w[1].heading.value - w[0].heading.value;
                // independent formulation of the smallest heading change
                let dh = d.sin().atan2(d.cos()).abs();
                let curvature = dh / len;
                let one_degree = (std::f64::consts::PI / 180.0) / (100.0 * 0.3048);
                let coeff = if curvature < one_degree {
                    tp.curve_coeff_0.value * curvature
                } else {
                    tp.curve_coeff_0.value * one_degree
                        + tp.curve_coeff_1.value * (curvature - one_degree)
                        + tp.curve_coeff_2.value * (curvature - one_degree) * (curvature - one_degree)
                };
                curve_pts.push((base + w[0].offset.value, c, coeff));
                c += coeff * len;
            }
        }
        for cp in &l.cat_power_limits {
            cats.push((base + cp.offset_start.value, base + cp.offset_end.value, cp.power_limit.value));
        }
        base += l.length.value;
        bounds.push(base);
    }
    curve_pts.push((base, c, 0.0));
    RefGeom { bounds, elev_pts, curve_pts, cats, elev_pieces }
}

fn interp_pts(pts: &[(f64, f64)], x: f64) -> f64 {
    // piecewise linear through pts (sorted by offset), stateless binary search
    let mut lo = 0;
    let mut hi = pts.len() - 1;
    if x <= pts[0].0 {
        return pts[0].1;
    }
    if x >= pts[hi].0 {
        return pts[hi].1;
    }
    while hi - lo > 1 {
        let mid = (lo + hi) / 2;
        if pts[mid].0 <= x {
            lo = mid
        } else {
            hi = mid
        }
    }
    let (x0, y0) = pts[lo];
    let (x1, y1) = pts[hi];
    y0 + (y1 - y0) * (x - x0) / (x1 - x0)
}

fn path_val(v: &[altrios_core::track::PathResCoeff], x: f64) -> f64 {
    // evaluate the path's own cumulative function: last point with offset <= x
    let mut k = 0;
    for (i, p) in v.iter().enumerate() {
        if p.offset.value <= x {
            k = i;
        }
    }
    v[k].calc_res_val(uc::M * x).value
}

pub fn check_geometry(ctx: &mut Ctx, net: &GenNet, route: &[LinkIdx], tp: &TrainParams, p: &PathTpc) {
    let g = ref_geometry(&net.links, route, tp);
    let viol = |ctx: &mut Ctx, clause: &str, msg: String, extra: Value| {
        ctx.violate(clause, &format!("C06:{clause}"), msg, json!({"detail": extra, "case": route_json(net, route, tp)}));
    };
    // segment boundaries
    let lp = p.link_points();
    ctx.count("obs.link_boundaries");
    if lp.len() != route.len() + 1 {
        viol(ctx, "link_points_len", format!("{} link points for {} links", lp.len(), route.len()), json!({}));
        return;
    }
    for (i, l) in lp.iter().enumerate() {
        if !close(l.offset.value, g.bounds[i], 1e-12, 0.0) {
            viol(ctx, "segment_boundary", format!("link point {i} at {} but cumulative length is {}", l.offset.value, g.bounds[i]), json!({}));
        }
        if i < route.len() && l.link_idx != route[i] {
            viol(ctx, "segment_identity", format!("link point {i} names link {} but route has {}", l.link_idx.idx(), route[i].idx()), json!({}));
        }
    }
    // elevation at all breakpoints + midpoints
    let grades = p.grades();
    let total = *g.bounds.last().unwrap();
    let mut xs: Vec<f64> = g.elev_pts.iter().map(|e| e.0).chain(grades.iter().map(|q| q.offset.value)).filter(|x| x.is_finite() && *x <= total).collect();
    xs.sort_by(|a, b| a.partial_cmp(b).unwrap());
    xs.dedup();
    let mut pts = vec![];
    for w in 0..xs.len() {
        pts.push(xs[w]);
        if w + 1 < xs.len() {
            pts.push((xs[w] + xs[w + 1]) / 2.0);
        }
    }
    let zscale = g.elev_pts.iter().map(|e| e.1.abs()).fold(1.0, f64::max);
    for &x in &pts {
        ctx.count("obs.elevation_points");
        let zr = interp_pts(&g.elev_pts, x);
        let zp = path_val(grades, x);
        if !close(zr, zp, 1e-9, zscale) {
            viol(ctx, "elevation", format!("elevation at x={x}: path {zp} vs walked {zr}"), json!({"x": x, "path": zp, "walked": zr}));
            break;
        }
    }
    // grade coefficient per piece = slope of the route's own points
    for w in g.elev_pieces.iter() {
        let xm = (w.0 + w.1) / 2.0;
        if !(w.0 < xm && xm < w.1) {
            continue; // piece shorter than the float spacing at this offset
        }
        let slope = w.2;
        let w = [(w.0, 0.0), (w.1, 0.0)];
        let mut k = 0;
        for (i, q) in grades.iter().enumerate() {
            if q.offset.value <= xm {
                k = i;
            }
        }
        ctx.count("obs.grade_pieces");
        if !close(grades[k].res_coeff.value, slope, 1e-9, 1e-3) {
            viol(ctx, "grade_coeff", format!("grade on [{}, {}]: path {} vs slope {}", w[0].0, w[1].0, grades[k].res_coeff.value, slope), json!({}));
            break;
        }
    }
    // curve coefficients and cumulative curve resistance
    let curves = p.curves();
    let cscale = g.curve_pts.iter().map(|c| c.1.abs()).fold(1e-6, f64::max);
    for w in g.curve_pts.windows(2) {
        let xm = (w[0].0 + w[1].0) / 2.0;
        let mut k = 0;
        for (i, q) in curves.iter().enumerate() {
            if q.offset.value <= xm {
                k = i;
            }
        }
        ctx.count("obs.curve_pieces");
        if !close(curves[k].res_coeff.value, w[0].2, 1e-7, 1e-9) {
            viol(ctx, "curve_coeff", format!("curve coefficient on [{}, {}]: path {} vs reference {}", w[0].0, w[1].0, curves[k].res_coeff.value, w[0].2), json!({"path": curves[k].res_coeff.value, "reference": w[0].2}));
            break;
        }
        let cp = path_val(curves, xm);
        let cr = w[0].1 + w[0].2 * (xm - w[0].0);
        if !close(cp, cr, 1e-7, cscale) {
            viol(ctx, "curve_cumulative", format!("cumulative curve resistance at x={xm}: path {cp} vs reference {cr}"), json!({}));
            break;
        }
    }
    // catenary
    let cats = p.cat_power_limits();
    ctx.count("obs.catenary_sections");
    if cats.len() != g.cats.len() {
        viol(ctx, "catenary_count", format!("{} catenary sections in path, {} along the route", cats.len(), g.cats.len()), json!({}));
    } else {
        for (a, b) in cats.iter().zip(&g.cats) {
            if !close(a.offset_start.value, b.0, 1e-12, 0.0) || !close(a.offset_end.value, b.1, 1e-12, 0.0) || a.power_limit.value != b.2 {
                viol(ctx, "catenary_shift", format!("catenary section [{}, {}] vs route [{}, {}]", a.offset_start.value, a.offset_end.value, b.0, b.1), json!({}));
                break;
            }
        }
    }
    // the crate's own hinted lookup (what the resistance model calls at every step) must land on the piece that
    // holds the position, on finished and on unfinished paths alike: a forward sweep, a backward sweep and
    // cold searches from the first index, compared with the stateless evaluation above
    {
        use altrios_core::lin_search_hint::{Dir, LinSearchHint};
        for (name, v) in [("grades", grades), ("curves", p.curves())] {
            let last = v.iter().rev().find(|q| q.offset.value.is_finite()).map(|q| q.offset.value).unwrap_or(0.0).min(total.max(v[0].offset.value));
            let mut xs: Vec<f64> = v.iter().map(|q| q.offset.value).filter(|x| x.is_finite() && *x <= last).collect();
            let mids: Vec<f64> = xs.windows(2).map(|w| 0.5 * (w[0] + w[1])).collect();
            xs.extend(mids);
            xs.sort_by(|a, b| a.partial_cmp(b).unwrap());
            let mut bad: Option<String> = None;
            let mut idx = 0usize;
            for x in &xs {
                ctx.count("obs.hinted_lookups");
                match panics::guard(AssertUnwindSafe(|| v.calc_idx(uc::M * *x, idx, &Dir::Fwd))) {
                    Ok(Ok(i)) => {
                        idx = i;
                        let (got, want) = (v[i].calc_res_val(uc::M * *x).value, path_val(v, *x));
                        if !close(got, want, 1e-12, want.abs().max(1.0)) {
                            bad = Some(format!("forward sweep at x={x}: piece {i} gives {got}, the piece holding x gives {want}"));
                            break;
                        }
                    }
                    Ok(Err(e)) => {
                        bad = Some(format!("forward sweep at x={x} inside the path is rejected: {e:#}"));
                        break;
                    }
                    Err(pn) => {
                        bad = Some(format!("forward sweep at x={x} panics: {}", pn.message));
                        break;
                    }
                }
            }
            if bad.is_none() {
                for x in xs.iter().rev() {
                    ctx.count("obs.hinted_lookups");
                    match panics::guard(AssertUnwindSafe(|| v.calc_idx(uc::M * *x, idx, &Dir::Bwd))) {
                        Ok(Ok(i)) => {
                            idx = i;
                            let (got, want) = (v[i].calc_res_val(uc::M * *x).value, path_val(v, *x));
                            if !close(got, want, 1e-12, want.abs().max(1.0)) {
                                bad = Some(format!("backward sweep at x={x}: piece {i} gives {got}, the piece holding x gives {want}"));
                                break;
                            }
                        }
                        Ok(Err(e)) => {
                            bad = Some(format!("backward sweep at x={x} inside the path is rejected: {e:#}"));
                            break;
                        }
                        Err(pn) => {
                            bad = Some(format!("backward sweep at x={x} panics: {}", pn.message));
                            break;
                        }
                    }
                }
            }
            if let Some(m) = bad {
                viol(ctx, "hinted_lookup", format!("{name} (path {}): {m}", if p.is_finished() { "finished" } else { "unfinished" }), json!({}));
            }
        }
    }
    // internal consistency of counts
    ctx.count("obs.count_bookkeeping");
    let gsum: usize = lp.iter().map(|l| l.grade_count).sum();
    let csum: usize = lp.iter().map(|l| l.curve_count).sum();
    let catsum: usize = lp.iter().map(|l| l.cat_power_count).sum();
    if gsum != grades.len() - 1 || csum != curves.len() - 1 || catsum != cats.len() {
        viol(ctx, "count_bookkeeping", format!("sum of counts grade {gsum} curve {csum} cat {catsum} vs vector lengths {} {} {}", grades.len() - 1, curves.len() - 1, cats.len()), json!({}));
    } else {
        let (mut gi, mut ci) = (0usize, 0usize);
        for l in lp.iter() {
            if !close(grades[gi].offset.value, l.offset.value, 1e-12, 0.0) || !close(curves[ci].offset.value, l.offset.value, 1e-12, 0.0) {
                viol(ctx, "count_alignment", format!("link point at {} not at summed grade/curve index (grade offset {}, curve offset {})", l.offset.value, grades[gi].offset.value, curves[ci].offset.value), json!({}));
                break;
            }
            gi += l.grade_count;
            ci += l.curve_count;
        }
    }
    for w in grades.windows(2) {
        if !close(w[1].res_net.value - w[0].res_net.value, w[0].res_coeff.value * (w[1].offset.value - w[0].offset.value), 1e-9, zscale) {
            viol(ctx, "res_net_consistency", "grade res_net increments != coeff * d(offset)".into(), json!({}));
            break;
        }
    }
}

/// `PathTpc::clear(offset_back)` releases the links wholly behind a position. Afterwards the profile must still be
/// the route's geometry from its new first boundary on (same cumulative grade / curve values at every position),
/// the per-link counts must still add up to the vectors and point at the link boundaries, and the counts it
/// reports as released must be those of the links it released.
fn check_clear(ctx: &mut Ctx, rng: &mut Rng, net: &GenNet, route: &[LinkIdx], tp: &TrainParams, built: &PathTpc) {
    let old = built.clone();
    let lp_old: Vec<_> = old.link_points().to_vec();
    let nb = lp_old.len();
    // a position on or between link boundaries (both ends of the path included)
    let j = rng.usize(0, nb - 2);
    let (a, b) = (lp_old[j].offset.value, lp_old[j + 1].offset.value);
    let x = match rng.usize(0, 3) {
        0 => a,
        1 => b,
        _ => a + (b - a) * rng.range(0.0, 1.0),
    };
    let mut p = old.clone();
    let r = panics::guard(AssertUnwindSafe(|| p.clear(uc::M * x)));
    let viol = |ctx: &mut Ctx, clause: &str, msg: String| {
        ctx.violate(clause, &format!("C06:{clause}"), format!("after clear({x}): {msg}"), json!({"offset_back": x, "case": route_json(net, route, tp)}));
    };
    ctx.count("obs.clear_calls");
    let del = match r {
        Ok(Ok(d)) => d,
        Ok(Err(e)) => {
            viol(ctx, "clear_rejected", format!("a position inside the path was rejected: {e:#}"));
            return;
        }
        Err(pn) => {
            // Outside this property (it concerns the speed profile, which C06 does not speak about, and no simulation
            // calls clear): when no speed point lies at or after the new first boundary - a constant limit from there
            // on - the scan for the speed points to release runs off the end of the vector. Recorded, not judged.
            let k = (0..nb - 1).take_while(|i| lp_old[i + 1].offset.value < x).count();
            let no_speed_point_left = k > 0 && old.speed_points().iter().all(|sp| sp.offset.value < lp_old[k].offset.value);
            if no_speed_point_left {
                ctx.count("obs.clear_aborts_when_no_speed_point_follows_the_new_start(record_only)");
            } else {
                viol(ctx, "clear_panic", format!("panic {} at {}", pn.message, pn.location));
            }
            return;
        }
    };
    // links released: those that end before x
    let k = (0..nb - 1).take_while(|i| lp_old[i + 1].offset.value < x).count();
    if k > 0 {
        ctx.count("obs.clear_calls_releasing_links");
    }
    let lp = p.link_points();
    if lp.len() != nb - k || lp.iter().zip(&lp_old[k..]).any(|(n, o)| n != o) {
        viol(ctx, "clear_link_points", format!("{} link points remain, expected the last {} of {}", lp.len(), nb - k, nb));
        return;
    }
    let want = (lp_old[..k].iter().map(|l| l.grade_count).sum::<usize>(), lp_old[..k].iter().map(|l| l.curve_count).sum::<usize>(), lp_old[..k].iter().map(|l| l.cat_power_count).sum::<usize>());
    if (del.grade_count, del.curve_count, del.cat_power_count) != want {
        viol(ctx, "clear_reported_counts", format!("reports (grade, curve, catenary) counts {:?} released, the released links held {:?}", (del.grade_count, del.curve_count, del.cat_power_count), want));
    }
    let (grades, curves, cats) = (p.grades(), p.curves(), p.cat_power_limits());
    let fin = if old.is_finished() { 2 } else { 1 };
    let gsum: usize = lp.iter().map(|l| l.grade_count).sum();
    let csum: usize = lp.iter().map(|l| l.curve_count).sum();
    let catsum: usize = lp.iter().map(|l| l.cat_power_count).sum();
    if gsum + fin != grades.len() || csum + fin != curves.len() || catsum != cats.len() {
        viol(ctx, "clear_count_bookkeeping", format!("sum of counts grade {gsum} curve {csum} cat {catsum} vs vector lengths {} {} {}", grades.len() - fin, curves.len() - fin, cats.len()));
        return;
    }
    let (mut gi, mut ci) = (0usize, 0usize);
    for l in lp.iter() {
        if grades[gi].offset != l.offset || curves[ci].offset != l.offset {
            viol(ctx, "clear_count_alignment", format!("link point at {} not at summed grade/curve index (grade offset {}, curve offset {})", l.offset.value, grades[gi].offset.value, curves[ci].offset.value));
            return;
        }
        gi += l.grade_count;
        ci += l.curve_count;
    }
    // geometry from the new first boundary on is unchanged
    let start = lp[0].offset.value;
    let mut xs: Vec<f64> = old.grades().iter().chain(old.curves().iter()).map(|q| q.offset.value).filter(|q| q.is_finite() && *q >= start).collect();
    xs.sort_by(|a, b| a.partial_cmp(b).unwrap());
    xs.dedup();
    let mids: Vec<f64> = xs.windows(2).map(|w| 0.5 * (w[0] + w[1])).collect();
    for q in xs.iter().chain(mids.iter()) {
        ctx.count("obs.clear_points_compared");
        if path_val(grades, *q) != path_val(old.grades(), *q) || path_val(curves, *q) != path_val(old.curves(), *q) {
            viol(ctx, "clear_geometry_kept", format!("cumulative grade / curve resistance at x={q} is ({}, {}), before the call ({}, {})", path_val(grades, *q), path_val(curves, *q), path_val(old.grades(), *q), path_val(old.curves(), *q)));
            return;
        }
    }
    let cats_want: Vec<_> = old.cat_power_limits().iter().skip(want.2).cloned().collect();
    if cats != cats_want.as_slice() {
        viol(ctx, "clear_catenary_kept", format!("{} catenary sections remain, expected {}", cats.len(), cats_want.len()));
    }
}

pub fn run_geometry(ctx: &mut Ctx, rng: &mut Rng, thorough: bool) {
    let o = NetOpts::path_default(rng);
    let net = gn::network(rng, &o);
    if let Err(e) = gn::validate(&net.links) {
        ctx.count("gen.network_rejected_by_validation");
        ctx.rep.diag(json!({"case": ctx.case, "generated_network_rejected": e}));
        return;
    }
    ctx.rep.evaluations -= 1; // evaluations are counted per (route, train) pair
    for _ in 0..3 {
        ctx.rep.evaluations += 1;
        let tp = train_params(rng, &net.train_types);
        let reverse = rng.chance(0.3);
        let full = rng.chance(0.5);
        let route = net.route(rng, reverse, full);
        let sch = schedules(rng, route.len(), thorough);
        let mut first: Option<PathTpc> = None;
        for mask in &sch {
            match build_path(&net.links, &route, &tp, *mask) {
                Ok(p) => {
                    ctx.count("obs.paths_built");
                    check_geometry(ctx, &net, &route, &tp, &p);
                    match &first {
                        None => first = Some(p),
                        Some(f) => {
                            ctx.count("obs.schedule_equality");
                            if *f != p {
                                ctx.violate("schedule_independence", "C06:schedule_independence",
                                    format!("path built with extension mask {mask:#b} differs from the one-shot path"),
                                    json!({"mask": mask, "case": route_json(&net, &route, &tp)}));
                            }
                        }
                    }
                }
                Err(e) => {
                    ctx.count("obs.extend_err_on_contiguous_route");
                    if first.is_some() {
                        ctx.violate("schedule_independence", "C06:schedule_independence_err",
                            format!("extension mask {mask:#b} rejected although the one-shot build succeeded: {e:#}"),
                            json!({"mask": mask, "case": route_json(&net, &route, &tp)}));
                    }
                }
            }
        }
        if let Some(f) = &first {
            if route.len() >= 2 {
                check_clear(ctx, rng, &net, &route, &tp, f);
            }
        }
        if first.is_some() {
            ctx.count("obs.routes");
            let has_no_head = route.iter().any(|l| net.links[l.idx()].headings.is_empty());
            let has_cat = route.iter().any(|l| !net.links[l.idx()].cat_power_limits.is_empty());
            let wrap = route.iter().any(|l| net.links[l.idx()].headings.windows(2).any(|w| (w[1].heading.value - w[0].heading.value).abs() > std::f64::consts::PI));
            if route.len() >= 3 && (has_no_head || has_cat || wrap) {
                ctx.rep.nontrivial(route_sig(&net, &route, &tp));
            }
            if ctx.rep.samples.len() < 2 && route.len() >= 2 {
                ctx.rep.sample(json!({"what": "route; path geometry compared with reference walk for each extension schedule; schedules compared bitwise", "schedules": sch.len(), "case": route_json(&net, &route, &tp)}));
            }
        }
        // non-contiguous routes must be rejected with an error (never a panic)
        if route.len() >= 2 && net.links.len() > 3 {
            let mut bad = route.clone();
            let k = rng.usize(1, bad.len() - 1);
            // replace link k by a link that is not a successor of link k-1
            let prev = &net.links[bad[k - 1].idx()];
            let cands: Vec<u32> = (1..net.links.len() as u32)
                .filter(|i| LinkIdx::new(*i) != prev.idx_next && LinkIdx::new(*i) != prev.idx_next_alt)
                .collect();
            if !cands.is_empty() {
                bad[k] = LinkIdx::new(*rng.pick(&cands));
                bad.truncate(k + 1);
                for mask in [0u64, (1u64 << (bad.len() - 1)) - 1] {
                    ctx.count("obs.noncontiguous_routes");
                    let r = crate::panics::guard(std::panic::AssertUnwindSafe(|| build_path(&net.links, &bad, &tp, mask)));
                    match r {
                        Ok(Ok(_)) => ctx.violate("noncontiguous_rejected", "C06:noncontiguous_accepted",
                            format!("non-contiguous route {:?} accepted (mask {mask:#b})", bad.iter().map(|l| l.idx()).collect::<Vec<_>>()),
                            json!({"route": bad.iter().map(|l| l.idx()).collect::<Vec<_>>(), "case": route_json(&net, &route, &tp)})),
                        Ok(Err(_)) => ctx.count("obs.noncontiguous_rejected_with_err"),
                        Err(p) => ctx.violate("noncontiguous_rejected", "C06:noncontiguous_panic",
                            format!("non-contiguous route panicked: {} at {}", p.message, p.location), json!({"route": bad.iter().map(|l| l.idx()).collect::<Vec<_>>()})),
                    }
                }
            }
        }
    }
}
