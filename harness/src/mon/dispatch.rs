//! C15 (estimated-time network well-formed / route-faithful / time-consistent),
//! C04 (no conflicting occupancy in dispatch states and plans) and
//! C05 (complete valid plan or explicit error, bounded progress) on shared generated instances.
use crate::gen::dispatch::{self as gd, Instance};
use crate::panics;
use crate::report::Ctx;
use crate::rng::{hash_f64s, mix, Rng};
use altrios_core::meet_pass::disp_structs::EstType;
use altrios_core::meet_pass::dispatch::run_dispatch;
use altrios_core::meet_pass::est_times::{make_est_times, EstTimeNet};
use altrios_core::track::Link;
use altrios_core::train::LinkIdxTime;
use altrios_core::verif_hooks::{set_dispatch_observer, DispatchPhase, DispatchSnapshot};
use serde_json::{json, Value};
use std::cell::RefCell;
use std::panic::AssertUnwindSafe;
use std::rc::Rc;

const TOL: f64 = 1e-6;
pub const TOL_MARK: f64 = TOL;

fn emit(ctx: &mut Ctx, prop: &str, clause: &str, sig: &str, msg: String, detail: Value) {
    if ctx.prop == prop {
        ctx.violate(clause, sig, msg, detail);
    }
}
fn obs(ctx: &mut Ctx, prop: &str, key: &str) {
    if ctx.prop == prop {
        ctx.count(key);
    }
}

// ------------------------------------------------------------------ C15

pub struct EstStats {
    pub nodes: usize,
    pub walks: usize,
    pub splits: usize,
    pub joins: usize,
}

fn et(t: EstType) -> &'static str {
    match t {
        EstType::Arrive => "Arrive",
        EstType::Clear => "Clear",
        EstType::Fake => "Fake",
    }
}

pub fn est_json(net: &EstTimeNet) -> Value {
    json!(net.val.iter().enumerate().map(|(i, e)| json!({"i": i, "t": e.time_sched.value, "dt": e.time_to_next.value, "next": e.idx_next, "next_alt": e.idx_next_alt,
        "prev": e.idx_prev, "prev_alt": e.idx_prev_alt, "link": e.link_event.link_idx.idx(), "type": et(e.link_event.est_type)})).take(400).collect::<Vec<_>>())
}

/// Does the train's own free run over `route` continued downstream to a destination fail to end within the
/// step budget (the recorded C03 stall)?
fn free_run_stalls(sim: &altrios_core::prelude::SpeedLimitTrainSim, links: &[Link], route: &[u32], dests: &[u32]) -> bool {
    let mut full: Vec<u32> = route.to_vec();
    // continue along next / next_alt links until a destination (breadth first, bounded)
    let mut frontier: Vec<Vec<u32>> = vec![vec![]];
    let mut tail: Option<Vec<u32>> = None;
    let last = match route.last() {
        Some(l) => *l,
        None => return false,
    };
    for _ in 0..12 {
        let mut next_frontier = vec![];
        for path in &frontier {
            let at = *path.last().unwrap_or(&last);
            for nx in [links[at as usize].idx_next.idx() as u32, links[at as usize].idx_next_alt.idx() as u32] {
                if nx == 0 {
                    continue;
                }
                let mut p2 = path.clone();
                p2.push(nx);
                if dests.contains(&nx) {
                    tail = Some(p2);
                    break;
                }
                next_frontier.push(p2);
            }
            if tail.is_some() {
                break;
            }
        }
        if tail.is_some() || next_frontier.is_empty() {
            break;
        }
        frontier = next_frontier;
    }
    let tail = match tail {
        Some(t) => t,
        None => return false,
    };
    full.extend(tail);
    let mut p = sim.clone();
    p.set_save_interval(None);
    let route_idx: Vec<altrios_core::track::LinkIdx> = full.iter().map(|l| altrios_core::track::LinkIdx::new(*l)).collect();
    let r = panics::guard(AssertUnwindSafe(|| -> anyhow::Result<bool> {
        p.extend_path(links, &route_idx)?;
        p.finish();
        let mut n = 0usize;
        loop {
            let end = p.offset_end().value;
            let go = p.state.offset.value < end - 1000.0 * 0.3048 || (p.state.offset.value < end && p.state.speed.value != 0.0);
            if !go {
                return Ok(false);
            }
            p.step()?;
            n += 1;
            if n >= 60_000 {
                // no progress: at rest, short of the end
                return Ok(p.state.speed.value == 0.0);
            }
        }
    }));
    matches!(r, Ok(Ok(true)))
}

pub fn check_est_net(ctx: &mut Ctx, net: &EstTimeNet, links: &[Link], origs: &[u32], dests: &[u32], depart: f64, info: &Value, sim: Option<&altrios_core::prelude::SpeedLimitTrainSim>) -> EstStats {
    let v = &net.val;
    let n = v.len();
    let mut st = EstStats { nodes: n, walks: 0, splits: 0, joins: 0 };
    let p = "C15";
    let bad = |ctx: &mut Ctx, clause: &str, sig: String, msg: String| {
        emit(ctx, p, clause, &sig, msg, json!({"instance": info, "net": est_json(net)}));
    };
    obs(ctx, p, "obs.nets");
    if n < 4 {
        bad(ctx, "well_formed", "C15:too_small".into(), format!("network has only {n} nodes"));
        return st;
    }
    // ---- reciprocity of every link
    for (i, e) in v.iter().enumerate() {
        let iu = i as u32;
        obs(ctx, p, "obs.nodes");
        for (name, j) in [("idx_next", e.idx_next), ("idx_next_alt", e.idx_next_alt)] {
            if j != 0 {
                if j as usize >= n {
                    bad(ctx, "reciprocity", "C15:index_out_of_range".into(), format!("node {i}.{name} = {j} outside the net"));
                    continue;
                }
                let t = &v[j as usize];
                if !(t.idx_prev == iu || t.idx_prev_alt == iu) {
                    bad(ctx, "reciprocity", format!("C15:reciprocity:{name}"), format!("node {i}.{name} = {j} but node {j} points back to {} / {}", t.idx_prev, t.idx_prev_alt));
                }
            }
        }
        for (name, j) in [("idx_prev", e.idx_prev), ("idx_prev_alt", e.idx_prev_alt)] {
            if j != 0 || (name == "idx_prev" && i == 1) {
                if j as usize >= n {
                    bad(ctx, "reciprocity", "C15:index_out_of_range".into(), format!("node {i}.{name} = {j} outside the net"));
                    continue;
                }
                let t = &v[j as usize];
                if !(t.idx_next == iu || t.idx_next_alt == iu) {
                    bad(ctx, "reciprocity", format!("C15:reciprocity:{name}"), format!("node {i}.{name} = {j} but node {j} points forward to {} / {}", t.idx_next, t.idx_next_alt));
                }
            }
        }
        if e.idx_next_alt != 0 {
            st.splits += 1;
        }
        if e.idx_prev_alt != 0 {
            st.joins += 1;
        }
        if (e.idx_next == 0) != (i == n - 1) {
            bad(ctx, "well_formed", "C15:dangling_next".into(), format!("node {i} has idx_next {} (only the last node may end the net)", e.idx_next));
        }
    }
    // ---- reference: latest time at each node that still reaches the end node at its scheduled time over the
    // fastest remaining route (primary edge = the node's own duration, alternate edge = no time)
    let mut rmin = vec![f64::NAN; n];
    rmin[n - 1] = 0.0;
    {
        let mut stack: Vec<usize> = (0..n).collect();
        let mut guard = 0usize;
        while let Some(k) = stack.pop() {
            guard += 1;
            if guard > 50 * n + 1000 {
                break;
            }
            if !rmin[k].is_nan() {
                continue;
            }
            let (a, b) = (v[k].idx_next as usize, v[k].idx_next_alt as usize);
            let need: Vec<usize> = [a, b].iter().copied().filter(|&x| x != 0 && x < n && rmin[x].is_nan()).collect();
            if !need.is_empty() {
                stack.push(k);
                stack.extend(need);
                continue;
            }
            let mut best = f64::INFINITY;
            if a != 0 && a < n {
                best = best.min(v[k].time_to_next.value + rmin[a]);
            }
            if b != 0 && b < n {
                best = best.min(rmin[b]);
            }
            rmin[k] = best;
        }
    }
    let t_end = v[n - 1].time_sched.value;
    let as_designed = |k: usize| -> bool { rmin[k].is_finite() && (v[k].time_sched.value - (t_end - rmin[k])).abs() <= 1e-6 + 1e-9 * t_end.abs() };
    for k in 1..n {
        obs(ctx, p, if as_designed(k) { "obs.nodes_at_latest_start_reference" } else { "obs.nodes_off_latest_start_reference" });
    }
    if std::env::var("VERIF_DEBUG_C15").is_ok() && (1..n).any(|k| !as_designed(k)) && n < 80 {
        eprintln!("NET depart {depart} t_end {t_end}");
        for k in 0..n {
            eprintln!("  {k:3} {:?} l{:<3} t={:10.3} ttn={:8.3} next={:3} alt={:3} prev={:3} palt={:3} ref={:10.3} {}", v[k].link_event.est_type, v[k].link_event.link_idx.idx(), v[k].time_sched.value, v[k].time_to_next.value, v[k].idx_next, v[k].idx_next_alt, v[k].idx_prev, v[k].idx_prev_alt, t_end - rmin[k], if as_designed(k) { "" } else { "<<<" });
        }
    }
    // ---- observation only (not a clause of the property): single-origin networks whose first scheduled time is
    // not the departure time (same mechanism as the recorded backward-pass findings)
    if n > 2 && v[1].idx_next_alt == 0 && v[0].idx_next_alt == 0 {
        obs(ctx, p, "obs.single_origin_nets");
        let t0 = v[0].time_sched.value;
        ctx.rep.max("max_single_origin_first_time_shift_s", (t0 - depart).abs());
        if (t0 - depart).abs() > 1e-6 + 1e-9 * depart.abs() {
            obs(ctx, p, "obs.single_origin_nets_not_starting_at_departure");
        }
    }
    // ---- times and durations
    for (i, e) in v.iter().enumerate() {
        let (t, d) = (e.time_sched.value, e.time_to_next.value);
        if !t.is_finite() || !d.is_finite() {
            bad(ctx, "finite_times", "C15:non_finite_time".into(), format!("node {i}: time_sched {t}, time_to_next {d}"));
            continue;
        }
        if d < -TOL {
            bad(ctx, "non_negative_duration", "C15:negative_duration".into(), format!("node {i}: time_to_next {d}"));
        }
        if t < -TOL {
            // exact signature of the recorded finding: the backward pass schedules every node at
            // time_sched[primary successor] - own duration, all the way back from the end node, so nodes on a branch
            // that is not the fastest (and everything upstream of it, incl. the start nodes) are scheduled before the
            // departure time and, when the difference exceeds the departure time, below zero. Explained iff that
            // chain identity holds from this node to the end node with non-negative durations and the end node is
            // not before the departure.
            let mut k = i;
            let mut explained = t_end >= depart - TOL;
            for _ in 0..n {
                let nx = v[k].idx_next as usize;
                if nx == 0 {
                    explained &= k == n - 1;
                    break;
                }
                let dk = v[k].time_to_next.value;
                if nx >= n || dk < -TOL || (v[nx].time_sched.value - v[k].time_sched.value - dk).abs() > 1e-6 + 1e-9 * t_end.abs() {
                    explained = false;
                    break;
                }
                k = nx;
            }
            let sig = if explained { "C15:negative_time:backward_pass_schedules_slower_branch_before_departure" } else { "C15:negative_time" };
            bad(ctx, "non_negative_time", sig.into(), format!("node {i}: time_sched {t} < 0 (departure {depart})"));
        }
        // primary predecessor: equality
        if i >= 2 {
            let q = e.idx_prev as usize;
            if q < n && v[q].idx_next as usize == i {
                obs(ctx, p, "obs.primary_edges");
                let want = v[q].time_sched.value + v[q].time_to_next.value;
                if (t - want).abs() > TOL + 1e-9 * want.abs() {
                    bad(ctx, "primary_predecessor_time", "C15:primary_time_mismatch".into(), format!("node {i}: time_sched {t} != predecessor {q} time {} + duration {} = {want}", v[q].time_sched.value, v[q].time_to_next.value));
                }
            }
        }
        // any predecessor: not later than it allows
        for q in 0..n {
            let e2 = &v[q];
            let d_edge = if e2.idx_next as usize == i && q != i {
                Some(e2.time_to_next.value)
            } else if e2.idx_next_alt as usize == i && e2.idx_next_alt != 0 {
                Some(0.0)
            } else {
                None
            };
            if let Some(dd) = d_edge {
                if i == 0 {
                    continue;
                }
                obs(ctx, p, "obs.edges");
                if t > e2.time_sched.value + dd + TOL + 1e-9 * t.abs() {
                    // exact signature of the recorded finding: the backward pass aligns every alternate branch with the
                    // scheduled time of its join, so a faster alternate starts after its split node
                    let alt_shift = e2.idx_next_alt as usize == i && e.link_event.est_type == EstType::Fake;
                    bad(ctx, "not_later_than_predecessor_allows", if alt_shift { "C15:later_than_predecessor:alternate_branch_shifted_to_meet_join".into() } else { "C15:later_than_predecessor".into() }, format!("node {i}: time_sched {t} > predecessor {q} time {} + {dd}", e2.time_sched.value));
                }
            }
        }
    }
    // ---- every walk from the start reaches the end; events describe a contiguous O-D route
    let mut stack: Vec<(usize, Vec<u32>)> = vec![(0, vec![0])];
    let cap = 4000;
    while let Some((i, path)) = stack.pop() {
        if st.walks >= cap {
            obs(ctx, p, "obs.walk_enumeration_capped");
            break;
        }
        let e = &v[i];
        if e.idx_next == 0 {
            st.walks += 1;
            obs(ctx, p, "obs.walks");
            if i != n - 1 {
                bad(ctx, "walk_reaches_end", "C15:walk_ends_early".into(), format!("walk ends at node {i}, not at the last node {}", n - 1));
            }
            // event sequence
            let mut arrive: Vec<u32> = vec![];
            let mut clear: Vec<u32> = vec![];
            let mut okw = true;
            for &k in &path {
                let le = v[k as usize].link_event;
                match le.est_type {
                    EstType::Arrive => arrive.push(le.link_idx.idx() as u32),
                    EstType::Clear => {
                        let c = le.link_idx.idx() as u32;
                        // cleared after entered, in route order
                        if clear.len() >= arrive.len() || arrive[clear.len()] != c {
                            okw = false;
                            bad(ctx, "clear_after_arrive_in_order", "C15:clear_order".into(), format!("walk clears link {c} as its {}th clear event but entered links so far are {arrive:?}", clear.len() + 1));
                        }
                        clear.push(c);
                    }
                    EstType::Fake => {}
                }
            }
            if okw {
                if arrive.is_empty() || !origs.contains(&arrive[0]) {
                    bad(ctx, "route_from_origin", "C15:route_not_from_origin".into(), format!("walk starts on link {:?}, origins {origs:?}", arrive.first()));
                }
                if arrive.is_empty() || !dests.contains(arrive.last().unwrap()) {
                    // recorded finding (consequence of the C03 stall), exact condition: the train's own free run over
                    // this walk's route continued to the destination never ends (it comes to rest for good inside
                    // the final braking curve), so the events of the last link(s) are missing from the net
                    let stalls = sim.map(|s| free_run_stalls(s, links, &arrive, dests)).unwrap_or(false);
                    bad(ctx, "route_to_destination", if stalls { "C15:route_not_to_destination:free_run_stalls_inside_final_braking_curve".into() } else { "C15:route_not_to_destination".into() }, format!("walk ends on link {:?}, destinations {dests:?}", arrive.last()));
                }
                for w in arrive.windows(2) {
                    let l = &links[w[0] as usize];
                    if l.idx_next.idx() as u32 != w[1] && l.idx_next_alt.idx() as u32 != w[1] {
                        bad(ctx, "route_contiguous", "C15:route_not_contiguous".into(), format!("walk goes from link {} to link {} which is not one of its successors", w[0], w[1]));
                    }
                }
            }
            continue;
        }
        for j in [e.idx_next, e.idx_next_alt] {
            if j == 0 || j as usize >= n {
                continue;
            }
            if path.contains(&j) {
                bad(ctx, "walk_no_revisit", "C15:walk_revisits_node".into(), format!("walk revisits node {j}"));
                continue;
            }
            let mut p2 = path.clone();
            p2.push(j);
            stack.push((j as usize, p2));
        }
    }
    // ---- reported free-running trip time (fields the pyo3-only getter reads)
    let rt = v[n - 1].time_sched.value - v[0].time_sched.value;
    if !(rt.is_finite() && rt >= 0.0) {
        bad(ctx, "running_time", "C15:running_time".into(), format!("last - first scheduled time = {rt}"));
    }
    st
}

// ------------------------------------------------------------------ dispatch run with the hook

#[derive(Default)]
pub struct HookLog {
    pub iterations: usize,
    pub after_advance: usize,
    pub after_rewind: usize,
    pub end_of_iteration: usize,
    pub final_disps: Option<Value>,
    pub final_auths: Vec<Vec<(f64, f64, f64, f64, u16)>>,
    pub intermediate_violations: Vec<(String, String, String)>,
    pub transient_disagreements: usize,
    pub follower_pairs_in_link: usize,
    pub transient_follower_past_leader: usize,
    pub follower_past_leader_by_rounding: usize,
    /// executions of the instrumented unsafe blocks of free_path.rs during this run
    pub site_hits: std::collections::BTreeMap<&'static str, u64>,
    pub attempts_total: usize,
    pub attempts_this_iteration: usize,
    pub attempt_iteration: usize,
    pub max_attempts_per_iteration: usize,
}

fn active_train(auths: &[altrios_core::meet_pass::disp_structs::DispAuth]) -> Option<u16> {
    // a link is occupied by the trains whose authority there still has a finite back offset
    auths.iter().rev().find(|a| a.offset_back.value.is_finite() && a.train_idx.is_some()).and_then(|a| a.train_idx.map(|t| t.get()))
}

fn check_intermediate(s: &DispatchSnapshot, links: &[Link], log: &mut HookLog) {
    let phase = format!("{:?}", s.phase);
    // trains following each other inside one link: the follower's authorised front never passes the
    // leader's back (authorities are stored in entry order)
    for (l, auths) in s.link_disp_auths.iter().enumerate().skip(1) {
        for w in auths.windows(2) {
            let (lead, foll) = (&w[0], &w[1]);
            if lead.train_idx.is_none() || foll.train_idx.is_none() || !lead.offset_back.value.is_finite() || !foll.offset_front.value.is_finite() {
                continue;
            }
            log.follower_pairs_in_link += 1;
            if foll.offset_front.value > lead.offset_back.value && foll.offset_front.value <= lead.offset_back.value + 1e-6 {
                log.follower_past_leader_by_rounding += 1;
            }
            if foll.offset_front.value > lead.offset_back.value + 1e-6 {
                let msg = format!("[{phase}, iteration {}] on link {l} the front of train {} is authorised to {} m but the back of train {} ahead of it is at {} m", s.iteration,
                    foll.train_idx.map(|t| t.get()).unwrap_or(0), foll.offset_front.value, lead.train_idx.map(|t| t.get()).unwrap_or(0), lead.offset_back.value);
                if s.phase == DispatchPhase::EndOfIteration || s.phase == DispatchPhase::Final {
                    log.intermediate_violations.push(("follower_behind_leader".into(), "C04:follower_front_past_leader_back".into(), msg));
                } else {
                    log.transient_disagreements += 1;
                    log.transient_follower_past_leader += 1;
                }
            }
        }
    }
    for (l, auths) in s.link_disp_auths.iter().enumerate().skip(1) {
        let t = match active_train(auths) {
            Some(t) => t,
            None => continue,
        };
        let link = &links[l];
        let mut excl: Vec<usize> = link.link_idxs_lockout.iter().map(|x| x.idx()).collect();
        if link.idx_flip.idx() != 0 {
            excl.push(link.idx_flip.idx());
        }
        for m in excl {
            if let Some(u) = active_train(&s.link_disp_auths[m]) {
                if u != t {
                    let which = if m == link.idx_flip.idx() { "opposite_direction" } else { "lockout" };
                    let msg = format!("[{phase}, iteration {}] trains {t} and {u} hold link {l} and its {which} link {m} at the same time", s.iteration);
                    if s.phase == DispatchPhase::EndOfIteration || s.phase == DispatchPhase::Final {
                        log.intermediate_violations.push(("simultaneous_authorities".into(), format!("C04:simultaneous_authorities:{which}"), msg));
                    } else {
                        log.transient_disagreements += 1;
                    }
                }
            }
            // the blocked-links table must name the occupying train for the excluded link
            if s.phase == DispatchPhase::EndOfIteration {
                let b = s.links_blocked[m].map(|x| x.get());
                if b.is_none() {
                    log.intermediate_violations.push(("links_blocked_consistent".into(), "C04:links_blocked_missing".into(),
                        format!("[{phase}, iteration {}] train {t} occupies link {l} but links_blocked[{m}] is empty", s.iteration)));
                }
            }
        }
    }
}

pub struct DispatchOutcome {
    pub result: Result<anyhow::Result<Vec<Vec<LinkIdxTime>>>, panics::PanicInfo>,
    pub log: HookLog,
}

/// attempts to advance one train within one outer iteration (each successful attempt moves it by at least one
/// of its dispatch nodes; generated paths have fewer than 2000 nodes)
pub const INNER_ATTEMPT_BOUND: usize = 20_000;
pub const OUTER_ITERATION_BOUND: usize = 5_000_000;

pub fn run_with_hook(links: &[Link], sims: &[altrios_core::prelude::SpeedLimitTrainSim], nets: Vec<EstTimeNet>) -> DispatchOutcome {
    let log = Rc::new(RefCell::new(HookLog::default()));
    let l2 = log.clone();
    let links2: Vec<Link> = links.to_vec();
    set_dispatch_observer(Some(Box::new(move |s: &DispatchSnapshot| {
        let mut g = l2.borrow_mut();
        g.iterations = s.iteration;
        if s.phase == DispatchPhase::AdvanceAttempt {
            // bounded progress, decided on logical steps: a correct inner loop moves the selected train by at
            // least one node per attempt, and the outer loop handles one train per iteration
            if g.attempt_iteration != s.iteration {
                g.attempt_iteration = s.iteration;
                g.attempts_this_iteration = 0;
            }
            g.attempts_total += 1;
            g.attempts_this_iteration += 1;
            g.max_attempts_per_iteration = g.max_attempts_per_iteration.max(g.attempts_this_iteration);
            let stuck_inner = g.attempts_this_iteration > INNER_ATTEMPT_BOUND;
            let stuck_outer = s.iteration > OUTER_ITERATION_BOUND;
            drop(g);
            if stuck_inner {
                panic!("VERIF-BOUND inner: train {:?} was asked to advance more than {INNER_ATTEMPT_BOUND} times within outer iteration {}", s.train_idx_moved, s.iteration);
            }
            if stuck_outer {
                panic!("VERIF-BOUND outer: more than {OUTER_ITERATION_BOUND} outer iterations");
            }
            return;
        }
        match s.phase {
            DispatchPhase::AdvanceAttempt => {}
            DispatchPhase::AfterAdvance => g.after_advance += 1,
            DispatchPhase::AfterRewind => g.after_rewind += 1,
            DispatchPhase::EndOfIteration => g.end_of_iteration += 1,
            DispatchPhase::Final => {
                g.final_disps = serde_json::to_value(s.train_disps).ok();
                g.final_auths = s.link_disp_auths.iter().map(|v| v.iter().map(|a| (a.arrive_entry.value, a.arrive_exit.value, a.clear_entry.value, a.clear_exit.value, a.train_idx.map(|t| t.get()).unwrap_or(0))).collect()).collect();
            }
        }
        if g.intermediate_violations.len() < 5 {
            check_intermediate(s, &links2, &mut g);
        }
    })));
    let _ = altrios_core::verif_hooks::take_site_hits();
    let result = panics::guard(AssertUnwindSafe(|| run_dispatch(links, sims, nets, false, false)));
    set_dispatch_observer(None);
    let mut log = Rc::try_unwrap(log).map(|c| c.into_inner()).unwrap_or_default();
    log.site_hits = altrios_core::verif_hooks::take_site_hits();
    DispatchOutcome { result, log }
}

#[derive(Clone, Debug)]
struct Occ {
    train: usize,
    link: usize,
    arrive: f64,
    tail_in: f64, // tail passed the entry of this link
    leave: f64,   // tail left this link (= tail passed the entry of the train's next link, or final time)
    next_arrive: f64,
    order: usize,
}

/// occupancy windows reconstructed from the final dispatch paths
fn occupancy(final_disps: &Value) -> Vec<Occ> {
    let mut out = vec![];
    let arr = match final_disps.as_array() {
        Some(a) => a,
        None => return out,
    };
    for (t, d) in arr.iter().enumerate().skip(1) {
        let path = match d.get("disp_path").and_then(|p| p.as_array()) {
            Some(p) => p,
            None => continue,
        };
        let mut arrives: Vec<(usize, f64)> = vec![];
        let mut clears: Vec<(usize, f64)> = vec![];
        let mut t_end = f64::NEG_INFINITY;
        for nd in path {
            let tp = nd.get("time_pass").and_then(|x| x.as_f64()).unwrap_or(f64::INFINITY);
            let ty = nd.get("link_event").and_then(|e| e.get("est_type")).and_then(|x| x.as_str()).unwrap_or("Fake");
            let li = nd.get("link_event").and_then(|e| e.get("link_idx")).and_then(|x| x.as_u64()).unwrap_or(0) as usize;
            if tp.is_finite() {
                t_end = t_end.max(tp);
            }
            match ty {
                "Arrive" => arrives.push((li, tp)),
                "Clear" => clears.push((li, tp)),
                _ => {}
            }
        }
        for (k, (li, ta)) in arrives.iter().enumerate() {
            let tail_in = clears.get(k).map(|c| c.1).unwrap_or(t_end);
            let leave = clears.get(k + 1).map(|c| c.1).unwrap_or(t_end);
            let next_arrive = arrives.get(k + 1).map(|a| a.1).unwrap_or(t_end);
            out.push(Occ { train: t, link: *li, arrive: *ta, tail_in, leave, next_arrive, order: k });
        }
    }
    out
}

pub struct PlanStats {
    pub opposing_pairs: usize,
    pub followers: usize,
    pub had_to_delay: bool,
}

/// Is `route` exactly the sequence of arrive events of some walk from the start node to the end node of `net`?
fn route_is_complete_walk_of_net(net: &EstTimeNet, route: &[u32]) -> bool {
    let v = &net.val;
    let n = v.len();
    if n == 0 {
        return false;
    }
    let mut seen = std::collections::HashSet::new();
    let mut stack: Vec<(usize, usize)> = vec![(0, 0)];
    while let Some((i, mut pos)) = stack.pop() {
        if i >= n || !seen.insert((i, pos)) {
            continue;
        }
        if v[i].link_event.est_type == EstType::Arrive {
            if pos < route.len() && route[pos] == v[i].link_event.link_idx.idx() as u32 {
                pos += 1;
            } else {
                continue;
            }
        }
        if v[i].idx_next == 0 {
            if i == n - 1 && pos == route.len() {
                return true;
            }
            continue;
        }
        stack.push((v[i].idx_next as usize, pos));
        if v[i].idx_next_alt != 0 {
            stack.push((v[i].idx_next_alt as usize, pos));
        }
    }
    false
}

pub fn check_plan(ctx: &mut Ctx, inst: &Instance, out: &DispatchOutcome, nets: &[EstTimeNet], info: &Value) -> PlanStats {
    let mut stats = PlanStats { opposing_pairs: 0, followers: 0, had_to_delay: false };
    let links = &inst.links;
    let ntr = inst.trains.len();
    // ---------------- C05: outcome
    let plan = match &out.result {
        Err(p) if panics::is_debug_assert_site(p) && !p.message.contains("was placed past the back of train") => {
            // any other of the crate's own debug assertions: in the checked build the dispatcher's bookkeeping
            // contradicts itself (C05 speaks about aborts of a checked build too); the as-shipped build runs the
            // same case and is judged on its own
            let loc = p.location.rsplit('/').next().unwrap_or("").to_string();
            emit(ctx, "C05", "no_abort", &format!("C05:crate_debug_assert:{loc}"), format!("run_dispatch tripped the crate's own debug assertion: {} at {}", p.message.chars().take(200).collect::<String>(), p.location), info.clone());
            obs(ctx, "C05", "obs.crate_debug_assert_trips(other_sites)");
            return stats;
        }
        Err(p) if panics::is_debug_assert_site(p) => {
            // the one debug assertion that compares two floating-point sums exactly ("front of train ... placed past the
            // back of train ..."): trips on sub-micrometre rounding on correct plans; recorded, judged by the as-shipped
            // build which runs the same case
            obs(ctx, "C05", "obs.crate_debug_assert_trips(record_only)");
            if ctx.prop == "C05" {
                ctx.rep.diag(json!({"case": ctx.case, "crate_debug_assert": p.message.chars().take(160).collect::<String>(), "at": p.location}));
            }
            return stats;
        }
        Err(p) if p.message.starts_with("VERIF-BOUND") => {
            let which = if p.message.starts_with("VERIF-BOUND inner") { "inner_loop_makes_no_progress" } else { "outer_loop_does_not_end" };
            emit(ctx, "C05", "bounded_progress", &format!("C05:does_not_terminate:{which}"), format!("run_dispatch stopped by the monitor: {}", p.message), info.clone());
            obs(ctx, "C05", "obs.dispatch_stopped_by_progress_bound");
            return stats;
        }
        Err(p) => {
            let loc = p.location.rsplit('/').next().unwrap_or("").to_string();
            emit(ctx, "C05", "no_abort", &format!("C05:panic:{loc}"), format!("run_dispatch panicked: {} at {}", p.message.chars().take(200).collect::<String>(), p.location), info.clone());
            obs(ctx, "C05", "obs.dispatch_panics");
            return stats;
        }
        Ok(Err(e)) => {
            let m = format!("{e:#}");
            obs(ctx, "C05", "obs.dispatch_errs");
            if m.contains("got stuck") {
                obs(ctx, "C05", "obs.dispatch_err_names_stuck_trains");
                // the named trains must exist
                let named_ok = m.chars().filter(|c| c.is_ascii_digit()).count() > 0;
                if !named_ok {
                    emit(ctx, "C05", "error_names_trains", "C05:stuck_error_without_trains", format!("error does not name the stuck trains: {m}"), info.clone());
                }
            } else if m.trim().is_empty() {
                emit(ctx, "C05", "explicit_error", "C05:empty_error", "run_dispatch returned an empty error".into(), info.clone());
            } else {
                obs(ctx, "C05", "obs.dispatch_err_other_explicit");
            }
            return stats;
        }
        Ok(Ok(p)) => p,
    };
    obs(ctx, "C05", "obs.dispatch_ok");
    obs(ctx, "C04", "obs.dispatch_ok");
    // how often the plan leaves the shortest (primary) route of the estimated-time network
    for (k, route) in plan.iter().enumerate() {
        let est = &nets[k].val;
        let mut primary: Vec<usize> = vec![];
        let mut i = 0usize;
        loop {
            if est[i].link_event.est_type == EstType::Arrive {
                primary.push(est[i].link_event.link_idx.idx());
            }
            if est[i].idx_next == 0 {
                break;
            }
            i = est[i].idx_next as usize;
        }
        if route.iter().map(|x| x.link_idx.idx()).collect::<Vec<_>>() != primary {
            ctx.count("obs.trains_rerouted_off_the_shortest_route");
        }
    }
    // bounded progress
    let total_nodes: usize = out.log.final_disps.as_ref().and_then(|d| d.as_array()).map(|a| a.iter().map(|t| t.get("disp_path").and_then(|p| p.as_array()).map(|p| p.len()).unwrap_or(0)).sum()).unwrap_or(0);
    if ctx.prop == "C05" {
        ctx.rep.max("max_iterations_per_disp_node", out.log.iterations as f64 / total_nodes.max(1) as f64);
        ctx.add("obs.outer_iterations", out.log.iterations as u64);
        ctx.add("obs.rewinds", out.log.after_rewind as u64);
        ctx.add("obs.advance_attempts", out.log.attempts_total as u64);
        ctx.rep.max("max_advance_attempts_in_one_outer_iteration", out.log.max_attempts_per_iteration as f64);
        if out.log.iterations > 200 * total_nodes.max(1) {
            emit(ctx, "C05", "bounded_progress", "C05:iteration_bound", format!("{} outer iterations for {total_nodes} dispatch nodes", out.log.iterations), info.clone());
        }
    }
    if plan.len() != ntr {
        emit(ctx, "C05", "complete", "C05:train_count", format!("{} routes returned for {ntr} trains", plan.len()), info.clone());
        return stats;
    }
    let disps = out.log.final_disps.as_ref().and_then(|d| d.as_array().cloned()).unwrap_or_default();
    for (k, route) in plan.iter().enumerate() {
        let tc = &inst.trains[k];
        let mut bad = |ctx: &mut Ctx, clause: &str, msg: String| {
            emit(ctx, "C05", clause, &format!("C05:{clause}"), format!("train {} ({}): {msg}", k + 1, if tc.reverse { "reverse" } else { "forward" }), json!({"route": route.iter().map(|x| json!([x.link_idx.idx(), x.time.value])).collect::<Vec<_>>(), "instance": info}));
        };
        obs(ctx, "C05", "obs.routes_checked");
        if route.is_empty() {
            bad(ctx, "route_nonempty", "empty route".into());
            continue;
        }
        if !tc.origs.contains(&(route[0].link_idx.idx() as u32)) {
            bad(ctx, "starts_on_origin", format!("route starts on link {} but origins are {:?}", route[0].link_idx.idx(), tc.origs));
        }
        if route[0].time.value < tc.depart - TOL {
            bad(ctx, "starts_after_departure", format!("first arrival {} before departure {}", route[0].time.value, tc.depart));
        }
        if !tc.dests.contains(&(route.last().unwrap().link_idx.idx() as u32)) {
            // recorded finding, exact condition: the returned route is, event for event, a complete start-to-end walk
            // of the train's own estimated-time network - the network itself ends short of the destination on that
            // walk (see C15:route_not_to_destination:free_run_stalls_inside_final_braking_curve); dispatch followed it
            let route_links: Vec<u32> = route.iter().map(|x| x.link_idx.idx() as u32).collect();
            let faithful = nets.get(k).map(|n| route_is_complete_walk_of_net(n, &route_links)).unwrap_or(false);
            bad(ctx, if faithful { "ends_on_destination:route_is_a_complete_walk_of_an_est_time_net_that_ends_short" } else { "ends_on_destination" }, format!("route ends on link {} but destinations are {:?}", route.last().unwrap().link_idx.idx(), tc.dests));
        }
        for w in route.windows(2) {
            let l = &links[w[0].link_idx.idx()];
            if l.idx_next != w[1].link_idx && l.idx_next_alt != w[1].link_idx {
                bad(ctx, "contiguous", format!("link {} is followed by {} which is not a successor", w[0].link_idx.idx(), w[1].link_idx.idx()));
            }
            if !(w[1].time.value >= w[0].time.value - TOL) {
                bad(ctx, "times_non_decreasing", format!("arrival times decrease: {} then {}", w[0].time.value, w[1].time.value));
            }
        }
        if route.iter().any(|x| !x.time.value.is_finite()) {
            bad(ctx, "times_finite", "non-finite arrival time".into());
        }
        // free-running lower bound between consecutive dispatch nodes (from the hook's final snapshot)
        if let Some(d) = disps.get(k + 1) {
            let path = d.get("disp_path").and_then(|p| p.as_array()).cloned().unwrap_or_default();
            let est = &nets[k].val;
            // The same pair of events (e.g. arrive / clear of one link) can occur on several branches of the
            // train's estimated-time network with slightly different durations (different speed histories), and a
            // re-route relabels already passed nodes onto the branch the train continues on. The lower bound the
            // property speaks of is therefore the smallest free-running duration of that event pair on any branch.
            let ev = |i: usize| (est[i].link_event.est_type as u8, est[i].link_event.link_idx.idx());
            let mut min_dur: std::collections::HashMap<((u8, usize), (u8, usize)), f64> = std::collections::HashMap::new();
            for (i, e) in est.iter().enumerate() {
                let nx = e.idx_next as usize;
                if nx != 0 && nx < est.len() {
                    let d = min_dur.entry((ev(i), ev(nx))).or_insert(f64::INFINITY);
                    *d = d.min(e.time_to_next.value);
                }
            }
            for w in path.windows(2) {
                let (e0, e1) = (w[0].get("est_idx").and_then(|x| x.as_u64()).unwrap_or(0) as usize, w[1].get("est_idx").and_then(|x| x.as_u64()).unwrap_or(0) as usize);
                let (t0, t1) = (w[0].get("time_pass").and_then(|x| x.as_f64()), w[1].get("time_pass").and_then(|x| x.as_f64()));
                if let (Some(t0), Some(t1)) = (t0, t1) {
                    obs(ctx, "C05", "obs.legs_checked");
                    if e0 < est.len() && est[e0].idx_next as usize == e1 {
                        let need_branch = est[e0].time_to_next.value;
                        let need = min_dur.get(&(ev(e0), ev(e1))).copied().unwrap_or(need_branch).min(need_branch);
                        if need < need_branch - TOL {
                            obs(ctx, "C05", "obs.legs_judged_against_a_faster_branch_of_the_same_event_pair");
                        }
                        if t1 - t0 < need - TOL - 1e-9 * need.abs() {
                            bad(ctx, "not_faster_than_free_running", format!("leg between dispatch nodes (est {e0} -> {e1}) takes {} s but free running needs {need} s", t1 - t0));
                        }
                        if t1 - t0 > need + 1.0 {
                            stats.had_to_delay = true;
                        }
                    }
                } else {
                    bad(ctx, "plan_complete", "a dispatch node of the final plan has no time".into());
                }
            }
            // the returned route is the arrive events of the dispatch path
            let arr: Vec<(u64, f64)> = path.iter().filter(|n| n.get("link_event").and_then(|e| e.get("est_type")).and_then(|x| x.as_str()) == Some("Arrive"))
                .map(|n| (n.get("link_event").and_then(|e| e.get("link_idx")).and_then(|x| x.as_u64()).unwrap_or(0), n.get("time_pass").and_then(|x| x.as_f64()).unwrap_or(f64::NAN))).collect();
            if arr.len() != route.len() || arr.iter().zip(route.iter()).any(|(a, r)| a.0 as usize != r.link_idx.idx() || a.1 != r.time.value) {
                bad(ctx, "route_matches_dispatch_path", "returned timed path differs from the arrive events of the final dispatch path".into());
            }
        }
    }
    // ---------------- C04: final plan occupancy
    if ctx.prop == "C04" {
        for (clause, sig, msg) in &out.log.intermediate_violations {
            ctx.violate(clause, sig, msg.clone(), info.clone());
        }
        ctx.add("obs.snapshots_after_advance", out.log.after_advance as u64);
        ctx.add("obs.snapshots_after_rewind", out.log.after_rewind as u64);
        ctx.add("obs.snapshots_end_of_iteration", out.log.end_of_iteration as u64);
        ctx.add("obs.transient_disagreements_in_non_final_phases(record_only)", out.log.transient_disagreements as u64);
        ctx.add("obs.follower_pairs_inside_a_link_in_snapshots", out.log.follower_pairs_in_link as u64);
        ctx.add("obs.follower_front_past_leader_back_by_less_than_1e-6_m(rounding)", out.log.follower_past_leader_by_rounding as u64);
        ctx.add("obs.transient_follower_front_past_leader_back(record_only)", out.log.transient_follower_past_leader as u64);
        let occ = out.log.final_disps.as_ref().map(occupancy).unwrap_or_default();
        let spacing = 8.0 * 60.0;
        for a in &occ {
            for b in &occ {
                if a.train >= b.train {
                    continue;
                }
                let la = &links[a.link];
                let opposing = la.idx_flip.idx() == b.link && b.link != 0;
                let locked = la.link_idxs_lockout.iter().any(|x| x.idx() == b.link) || links[b.link].link_idxs_lockout.iter().any(|x| x.idx() == a.link);
                if opposing || locked {
                    stats.opposing_pairs += 1;
                    ctx.count(if opposing { "obs.opposing_window_pairs" } else { "obs.lockout_window_pairs" });
                    // closed-open windows: touching is allowed
                    let overlap = a.arrive < b.leave - TOL && b.arrive < a.leave - TOL;
                    if overlap {
                        let which = if opposing { "opposite_direction" } else { "lockout" };
                        ctx.violate("no_conflicting_occupancy", &format!("C04:overlapping_occupancy:{which}"),
                            format!("train {} holds link {} during [{}, {}] and train {} holds its {which} link {} during [{}, {}]", a.train, a.link, a.arrive, a.leave, b.train, b.link, b.arrive, b.leave),
                            json!({"a": format!("{a:?}"), "b": format!("{b:?}"), "instance": info}));
                    }
                }
                if a.link == b.link {
                    if !a.arrive.is_finite() || !b.arrive.is_finite() {
                        // a window without an entry time: the plan is incomplete, which is C05's verdict, not an order question
                        ctx.count("obs.follower_pairs_skipped_untimed_window");
                        continue;
                    }
                    // same direction over the same link: headway and order
                    let (lead, foll) = if a.arrive <= b.arrive { (a, b) } else { (b, a) };
                    // consecutive users only (no third train, no opposing movement in between)
                    let between = occ.iter().any(|c| {
                        (c.link == a.link && c.train != lead.train && c.train != foll.train && c.arrive > lead.arrive && c.arrive < foll.arrive)
                            || (links[a.link].idx_flip.idx() == c.link && c.arrive > lead.arrive && c.arrive < foll.arrive)
                    });
                    if between {
                        continue;
                    }
                    stats.followers += 1;
                    ctx.count("obs.follower_pairs");
                    if foll.arrive < lead.tail_in + spacing - TOL {
                        ctx.violate("entry_headway", "C04:entry_headway", format!("train {} enters link {} at {} but train {} only cleared its entry at {} (headway {spacing} s)", foll.train, a.link, foll.arrive, lead.train, lead.tail_in),
                            json!({"leader": format!("{lead:?}"), "follower": format!("{foll:?}"), "instance": info}));
                    }
                    if foll.next_arrive < lead.leave + spacing - TOL && foll.next_arrive.is_finite() && lead.leave.is_finite() && foll.order + 1 < usize::MAX && foll.next_arrive != foll.leave {
                        ctx.violate("exit_headway", "C04:exit_headway", format!("train {} leaves link {} (front) at {} but train {} only cleared it at {} (headway {spacing} s)", foll.train, a.link, foll.next_arrive, lead.train, lead.leave),
                            json!({"leader": format!("{lead:?}"), "follower": format!("{foll:?}"), "instance": info}));
                    }
                    if foll.next_arrive < lead.next_arrive - TOL {
                        ctx.violate("no_overtaking_inside_segment", "C04:order_changed_inside_segment", format!("train {} entered link {} after train {} but left it first", foll.train, a.link, lead.train),
                            json!({"leader": format!("{lead:?}"), "follower": format!("{foll:?}"), "instance": info}));
                    }
                }
            }
        }
        // black-box necessary condition on the returned timed paths (front occupancy of opposing trains)
        for (i, ra) in plan.iter().enumerate() {
            for (j, rb) in plan.iter().enumerate().skip(i + 1) {
                for (ka, xa) in ra.iter().enumerate() {
                    for (kb, xb) in rb.iter().enumerate() {
                        if links[xa.link_idx.idx()].idx_flip == xb.link_idx && xb.link_idx.idx() != 0 {
                            ctx.count("obs.blackbox_front_pairs");
                            let a_end = ra.get(ka + 1).map(|x| x.time.value).unwrap_or(f64::INFINITY);
                            let b_end = rb.get(kb + 1).map(|x| x.time.value).unwrap_or(f64::INFINITY);
                            if xa.time.value < b_end - TOL && xb.time.value < a_end - TOL && a_end.is_finite() && b_end.is_finite() {
                                ctx.violate("front_occupancy_disjoint", "C04:front_occupancy_overlap", format!("fronts of trains {} and {} are on link {} / its flip during overlapping intervals [{}, {a_end}] and [{}, {b_end}]", i + 1, j + 1, xa.link_idx.idx(), xa.time.value, xb.time.value), info.clone());
                            }
                        }
                    }
                }
            }
        }
    }
    stats
}

fn inst_json(inst: &Instance) -> Value {
    json!({
        "gaps": inst.net.gaps, "route_len_m": inst.route_len, "flags": inst.net.flags,
        "links": inst.links.iter().skip(1).map(|l| json!({"idx": l.idx_curr.idx(), "len": l.length.value, "flip": l.idx_flip.idx(), "next": l.idx_next.idx(), "next_alt": l.idx_next_alt.idx(), "prev": l.idx_prev.idx(), "prev_alt": l.idx_prev_alt.idx(), "lockout": l.link_idxs_lockout.iter().map(|x| x.idx()).collect::<Vec<_>>()})).collect::<Vec<_>>(),
        "trains": inst.trains.iter().map(|t| json!({"spec": t.spec_idx, "reverse": t.reverse, "depart_s": t.depart, "length_m": inst.specs[t.spec_idx].length, "origs": t.origs, "dests": t.dests})).collect::<Vec<_>>(),
    })
}

pub struct Prepared {
    pub inst: Instance,
    pub nets: Vec<EstTimeNet>,
    pub info: Value,
}

/// build the instance and its estimated-time networks; `None` when construction did not succeed
pub fn prepare(ctx: &mut Ctx, rng: &mut Rng, max_trains: usize) -> Option<Prepared> {
    prepare_family(ctx, rng, max_trains, false)
}

pub fn prepare_family(ctx: &mut Ctx, rng: &mut Rng, max_trains: usize, congested: bool) -> Option<Prepared> {
    let mut inst = gd::instance_family(rng, max_trains, congested)?;
    let info = inst_json(&inst);
    let mut nets: Vec<EstTimeNet> = vec![];
    let mut keep = vec![];
    let mut cache: Vec<(usize, bool, f64, EstTimeNet)> = vec![];
    for (k, t) in inst.trains.iter().enumerate() {
        if let Some(c) = cache.iter().find(|c| c.0 == t.spec_idx && c.1 == t.reverse && c.2 == t.depart) {
            nets.push(c.3.clone());
            keep.push(k);
            continue;
        }
        ctx.count("obs.make_est_times_calls");
        let links = inst.links.clone();
        let sim = t.sim.clone();
        let r = crate::mon::train::run_with_timeout(move || panics::guard(AssertUnwindSafe(|| make_est_times(sim, &links))), 120);
        match r {
            None => {
                ctx.count("obs.make_est_times_timeout");
                ctx.rep.inconclusive_cases += 1;
                return None;
            }
            Some(Err(p)) => {
                // construction did not succeed (its own closing asserts): outside the antecedent, recorded
                ctx.count("obs.make_est_times_panic(construction_failed)");
                ctx.rep.diag(json!({"case": ctx.case, "make_est_times_panic": p.message.chars().take(160).collect::<String>(), "at": p.location}));
                if p.message.contains("Speed limit violated") {
                    emit(ctx, "C03", "no_panic", "C03:panic:speed_limit_assert", format!("make_est_times: {}", p.message), info.clone());
                }
            }
            Some(Ok(Err(e))) => {
                ctx.count("obs.make_est_times_err(construction_failed)");
                let m = format!("{e:#}");
                ctx.count(&format!("obs.make_est_times_err.{}", if m.contains("reverse direction smaller") { "braking_curve_before_path_start" } else if m.contains("sufficient power") { "insufficient_power" } else if m.contains("All times are 0.0") { "all_times_zero" } else { "other" }));
            }
            Some(Ok(Ok((net, _con)))) => {
                ctx.count("obs.make_est_times_ok");
                cache.push((t.spec_idx, t.reverse, t.depart, net.clone()));
                nets.push(net);
                keep.push(k);
            }
        }
    }
    if keep.is_empty() {
        return None;
    }
    let mut idx = 0;
    inst.trains.retain(|_| {
        let k = keep.contains(&idx);
        idx += 1;
        k
    });
    let info = json!({"instance": info, "trains_kept": keep});
    Some(Prepared { inst, nets, info })
}

pub fn run_c15(ctx: &mut Ctx, rng: &mut Rng, _t: bool) {
    let pr = match prepare(ctx, rng, 3) {
        Some(p) => p,
        None => {
            ctx.count("gen.no_instance");
            return;
        }
    };
    for (k, net) in pr.nets.iter().enumerate() {
        let t = &pr.inst.trains[k];
        if k > 0 {
            ctx.rep.evaluations += 1; // one evaluation per estimated-time network
        }
        let st = check_est_net(ctx, net, &pr.inst.links, &t.origs, &t.dests, t.depart, &pr.info, Some(&t.sim));
        ctx.rep.max("max_walks", st.walks as f64);
        ctx.rep.max("max_nodes", st.nodes as f64);
        if st.splits >= 1 && st.joins >= 1 {
            ctx.rep.nontrivial(mix(hash_f64s(&[st.nodes as f64, st.walks as f64, st.splits as f64, pr.inst.route_len, t.depart, pr.inst.specs[t.spec_idx].length])));
        }
        if ctx.rep.samples.len() < 2 {
            ctx.rep.sample(json!({"nodes": st.nodes, "start_to_end_walks_enumerated": st.walks, "splits": st.splits, "joins": st.joins, "route_len_m": pr.inst.route_len, "depart_s": t.depart, "reverse": t.reverse, "net_head": est_json(net).as_array().map(|a| a.iter().take(12).cloned().collect::<Vec<_>>())}));
        }
    }
}

/// the shipped Taconite network with the crate's own forward / reverse example trains
pub fn shipped_instance(ctx: &mut Ctx, rng: &mut Rng) -> Option<Prepared> {
    use altrios_core::traits::SerdeAPI;
    let net = altrios_core::track::Network::from_file("/repo/python/altrios/resources/networks/Taconite.yaml").ok()?;
    let links = net.0;
    let n = rng.usize(2, 8);
    let spread: f64 = *rng.pick(&[0.0, 1800.0, 7200.0, 6.0 * 3600.0]);
    let mut trains = vec![];
    let mut nets = vec![];
    let mut cache: Vec<(bool, f64, EstTimeNet)> = vec![];
    for k in 0..n {
        let reverse = rng.chance(0.5);
        let mut sim = if reverse { altrios_core::train::speed_limit_train_sim_rev() } else { altrios_core::train::speed_limit_train_sim_fwd() };
        let depart = (rng.range(0.0, spread.max(1.0))).round();
        sim.state.time = altrios_core::uc::S * depart;
        sim.train_id = format!("t{k}");
        let net = match cache.iter().find(|c| c.0 == reverse && c.1 == depart) {
            Some(c) => c.2.clone(),
            None => {
                ctx.count("obs.make_est_times_calls");
                let l2 = links.clone();
                let s2 = sim.clone();
                match crate::mon::train::run_with_timeout(move || panics::guard(AssertUnwindSafe(|| make_est_times(s2, &l2))), 300) {
                    Some(Ok(Ok((n, _)))) => {
                        ctx.count("obs.make_est_times_ok");
                        cache.push((reverse, depart, n.clone()));
                        n
                    }
                    _ => {
                        ctx.count("obs.make_est_times_err(construction_failed)");
                        continue;
                    }
                }
            }
        };
        let origs = sim.origs.iter().map(|l| l.link_idx.idx() as u32).collect();
        let dests = sim.dests.iter().map(|l| l.link_idx.idx() as u32).collect();
        trains.push(gd::TrainCase { spec_idx: 0, reverse, depart, sim, origs, dests });
        nets.push(net);
    }
    if trains.is_empty() {
        return None;
    }
    let info = json!({"instance": "shipped Taconite.yaml with speed_limit_train_sim_fwd/rev", "trains": trains.iter().map(|t| json!({"reverse": t.reverse, "depart_s": t.depart})).collect::<Vec<_>>()});
    let gen = crate::gen::network::GenNet { links: links.clone(), gaps: vec![], has_flips: true, train_types: vec![], flags: vec!["shipped"] };
    let spec = crate::gen::train::train(rng, &[altrios_core::track::TrainType::Freight], 500.0, 0.0);
    Some(Prepared { inst: Instance { net: gen, links, lm: Default::default(), specs: vec![spec], trains, route_len: 0.0 }, nets, info })
}

fn count_sites(ctx: &mut Ctx, out: &DispatchOutcome) {
    for (site, n) in &out.log.site_hits {
        ctx.add(&format!("obs.unsafe_block_executions.{site}"), *n);
    }
    if !out.log.site_hits.is_empty() {
        ctx.count("obs.dispatch_runs_reaching_unsafe_blocks");
    }
}

pub fn run_dispatch_case(ctx: &mut Ctx, rng: &mut Rng, _t: bool) {
    if ctx.case % 40 == 7 {
        if let Some(pr) = shipped_instance(ctx, rng) {
            ctx.count("obs.shipped_network_dispatches");
            let sims: Vec<_> = pr.inst.trains.iter().map(|t| t.sim.clone()).collect();
            ctx.count("obs.dispatch_runs");
            let out = run_with_hook(&pr.inst.links, &sims, pr.nets.clone());
            count_sites(ctx, &out);
            let stats = check_plan(ctx, &pr.inst, &out, &pr.nets, &pr.info);
            if stats.had_to_delay || out.log.after_rewind > 0 {
                ctx.rep.nontrivial(mix(hash_f64s(&[ctx.case as f64, out.log.iterations as f64, 77.0])));
            }
        }
        return;
    }
    let max_trains = *rng.pick(&[1usize, 2, 3, 4, 6, 8, 12, 16]);
    // an eighth of the cases: the congested family (long trains, short sidings, alternating directions) - about
    // four times as many rewinds per run as the general family
    let congested = ctx.case % 8 == 3 || std::env::var("VERIF_DISP_FAMILY").is_ok();
    if congested {
        ctx.count("obs.congested_family_cases");
    }
    let pr = match prepare_family(ctx, rng, max_trains, congested) {
        Some(p) => p,
        None => {
            ctx.count("gen.no_instance");
            return;
        }
    };
    let sims: Vec<_> = pr.inst.trains.iter().map(|t| t.sim.clone()).collect();
    ctx.count("obs.dispatch_runs");
    let out = run_with_hook(&pr.inst.links, &sims, pr.nets.clone());
    count_sites(ctx, &out);
    if std::env::var("VERIF_DEBUG_PLAN").is_ok() {
        if let Ok(Ok(plan)) = &out.result {
            for (k, r) in plan.iter().enumerate() {
                eprintln!("PLAN train {} : {:?}", k + 1, r.iter().map(|x| (x.link_idx.idx(), (x.time.value * 10.0).round() / 10.0)).collect::<Vec<_>>());
            }
        }
        if let Some(d) = out.log.final_disps.as_ref().and_then(|d| d.as_array()) {
            for (t, dd) in d.iter().enumerate().skip(1) {
                let path = dd.get("disp_path").and_then(|p| p.as_array()).cloned().unwrap_or_default();
                let tail: Vec<String> = path.iter().rev().take(8).rev().map(|n| format!("{}:{}@{}", n["link_event"]["est_type"].as_str().unwrap_or("?"), n["link_event"]["link_idx"], n["time_pass"])).collect();
                eprintln!("DISP train {t}: free {} fixed {} len {} tail {:?}", dd["disp_node_idx_free"], dd["disp_node_idx_fixed"], path.len(), tail);
            }
        }
    }
    let before = ctx.case_violations;
    let stats = check_plan(ctx, &pr.inst, &out, &pr.nets, &pr.info);
    if ctx.case_violations > before {
        if let Ok(dir) = std::env::var("VERIF_SAVE_FIXTURES") {
            // harvest mode (used once, on a tree with the dispatch repairs reverted, to build the regression corpus)
            let _ = std::fs::create_dir_all(&dir);
            let fx = crate::gen::fixture::Fixture::new(&pr.inst.links, pr.inst.trains.iter().map(|t| t.depart).collect(), pr.inst.trains.iter().map(|t| t.origs.clone()).collect(), pr.inst.trains.iter().map(|t| t.dests.clone()).collect(), pr.nets.clone());
            let sig = ctx.rep.violations.last().map(|v| v.signature.replace([':', '/', ' '], "_")).unwrap_or_default();
            let _ = fx.save(&std::path::Path::new(&dir).join(format!("{}_s{}_c{}_{}.bin", ctx.prop, ctx.rep.seed, ctx.case, sig.chars().take(60).collect::<String>())));
        }
    }
    let opposing = pr.inst.trains.iter().any(|t| t.reverse) && pr.inst.trains.iter().any(|t| !t.reverse);
    let nt = match ctx.prop {
        "C04" => opposing && stats.had_to_delay,
        "C05" => out.log.after_rewind > 0 || stats.had_to_delay,
        _ => false,
    };
    if nt {
        ctx.rep.nontrivial(mix(hash_f64s(&[pr.inst.route_len, pr.inst.trains.len() as f64, out.log.iterations as f64, stats.opposing_pairs as f64, stats.followers as f64])));
    }
    if ctx.rep.samples.len() < 2 {
        ctx.rep.sample(json!({"trains": pr.inst.trains.iter().map(|t| json!({"reverse": t.reverse, "depart_s": t.depart, "length_m": pr.inst.specs[t.spec_idx].length})).collect::<Vec<_>>(),
            "gaps": pr.inst.net.gaps, "route_len_m": pr.inst.route_len, "outer_iterations": out.log.iterations, "snapshots": {"after_advance": out.log.after_advance, "after_rewind": out.log.after_rewind, "end_of_iteration": out.log.end_of_iteration},
            "outcome": match &out.result { Ok(Ok(p)) => json!({"Ok": p.iter().map(|r| r.iter().map(|x| json!([x.link_idx.idx(), x.time.value])).collect::<Vec<_>>()).collect::<Vec<_>>()}), Ok(Err(e)) => json!({"Err": format!("{e:#}").chars().take(200).collect::<String>()}), Err(p) => json!({"panic": p.message}) }}));
    }
}
