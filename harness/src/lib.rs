//! Shared modules of the ALTRIOS runtime-monitoring harness (see /verif/DESIGN.md).
pub mod gen;
pub mod mon;
pub mod panics;
pub mod report;
pub mod rng;
