//! `avs` — small, self-contained workloads for sanitizers and interpreters (Miri, AddressSanitizer,
//! ThreadSanitizer, valgrind memcheck). Deciding step: the tool's report; the workload's own oracle
//! (plan validity, parallel == serial) runs too and makes the process exit non-zero.
//!
//!   avs gen-fixtures <dir> <n> <seed> [max est nodes]   native: generate n dispatch fixtures (compact, bincode)
//!   avs dispatch <dir> [max]              run run_dispatch on every fixture in <dir>
//!   avs regress <dir>                     run every fixture of the regression corpus, list the ones that fail
//!   avs batch <seed> <elements> <steps>   LocomotiveSimulationVec: parallel walk vs serial walks
use altrios_core::consist::locomotive::loco_sim::LocomotiveSimulationVec;
use altrios_core::meet_pass::dispatch::run_dispatch;
use altrios_core::meet_pass::est_times::{make_est_times, EstTimeNet};
use altrios_core::prelude::*;
use altrios_core::track::{Link, LinkIdx};
use altrios_core::uc;
use altrios_verif::gen::dispatch as gd;
use altrios_verif::rng::Rng;
use serde::{Deserialize, Serialize};

use altrios_verif::gen::fixture::Fixture;

fn gen_fixtures(dir: &str, n: usize, seed: u64, max_nodes: usize) {
    std::fs::create_dir_all(dir).unwrap();
    let mut made = 0;
    let mut k = 0u64;
    while made < n && k < 5000 {
        let mut rng = Rng::for_case(seed, "fixtures", k);
        k += 1;
        let inst = match gd::instance(&mut rng, 5) {
            Some(i) => i,
            None => continue,
        };
        if inst.links.len() > 60 {
            continue; // keep interpreter runs short
        }
        let mut nets = vec![];
        let mut departs = vec![];
        let (mut origs, mut dests) = (vec![], vec![]);
        for t in &inst.trains {
            if let Ok(Ok((net, _))) = altrios_verif::panics::guard(std::panic::AssertUnwindSafe(|| make_est_times(t.sim.clone(), &inst.links))) {
                nets.push(net);
                departs.push(t.depart);
                origs.push(t.origs.clone());
                dests.push(t.dests.clone());
            }
        }
        if nets.len() < 2 || nets.iter().map(|n| n.val.len()).sum::<usize>() > max_nodes {
            continue;
        }
        let f = Fixture::new(&inst.links, departs, origs, dests, nets);
        std::fs::write(format!("{dir}/fixture_{made:03}.bin"), bincode::serialize(&f).unwrap()).unwrap();
        made += 1;
    }
    println!("generated {made} fixtures in {dir}");
    if made == 0 {
        std::process::exit(3);
    }
}

fn dispatch(dir: &str, max: usize) {
    let mut files: Vec<_> = std::fs::read_dir(dir).unwrap().filter_map(|e| e.ok()).map(|e| e.path()).filter(|p| p.extension().map(|x| x == "bin").unwrap_or(false)).collect();
    files.sort();
    let (mut ok, mut errs, mut nodes) = (0, 0, 0usize);
    let mut dbg_trips = 0usize;
    altrios_verif::panics::install_printing_hook();
    for f in files.iter().take(max) {
        let fx: Fixture = bincode::deserialize(&std::fs::read(f).unwrap()).unwrap();
        let links = fx.links();
        let sims = fx.sims();
        nodes += fx.nets.iter().map(|n| n.val.len()).sum::<usize>();
        // the crate's own debug_assert!s are active in unoptimised builds (Miri); one of them compares two float
        // sums exactly and trips on sub-micrometre rounding on correct plans: recorded, not judged (DESIGN 8.1)
        let outcome = altrios_verif::panics::guard(std::panic::AssertUnwindSafe(|| run_dispatch(&links, &sims, fx.nets.clone(), false, false)));
        let outcome = match outcome {
            Ok(r) => r,
            Err(p) if altrios_verif::panics::is_debug_assert_site(&p) && p.message.contains("was placed past the back of train") => {
                dbg_trips += 1;
                continue;
            }
            Err(p) => panic!("run_dispatch panicked: {} at {}", p.message, p.location),
        };
        match outcome {
            Ok(plan) => {
                ok += 1;
                assert_eq!(plan.len(), sims.len(), "a train was dropped");
                for (k, route) in plan.iter().enumerate() {
                    assert!(!route.is_empty(), "empty route");
                    assert!(fx.origs[k].contains(&(route[0].link_idx.idx() as u32)), "route does not start on an origin");
                    assert!(route[0].time.value >= fx.departs[k] - 1e-6, "starts before departure");
                    for w in route.windows(2) {
                        let l = &links[w[0].link_idx.idx()];
                        assert!(l.idx_next == w[1].link_idx || l.idx_next_alt == w[1].link_idx, "route not contiguous");
                        assert!(w[1].time.value >= w[0].time.value - 1e-6 && w[1].time.value.is_finite(), "times decrease / not finite");
                    }
                }
            }
            Err(e) => {
                errs += 1;
                assert!(!format!("{e:#}").trim().is_empty());
            }
        }
    }
    let hits = altrios_core::verif_hooks::take_site_hits();
    println!("DISPATCH-WORKLOAD fixtures={} ok={ok} err={errs} crate_debug_assert_trips={dbg_trips} est_nodes={nodes} unsafe_block_executions={}", files.len().min(max), serde_json::to_string(&hits).unwrap());
    if ok + errs + dbg_trips == 0 {
        std::process::exit(3);
    }
}

/// Regression corpus: every fixture is an instance that once exposed a dispatch defect (on a tree without the
/// repair). All are run; a panic, a non-terminating run (observer bound) or an invalid plan fails the fixture.
fn regress(dir: &str) {
    use altrios_core::verif_hooks::{set_dispatch_observer, DispatchPhase};
    let mut files: Vec<_> = std::fs::read_dir(dir).map(|d| d.filter_map(|e| e.ok()).map(|e| e.path()).filter(|p| p.extension().map(|x| x == "bin").unwrap_or(false)).collect()).unwrap_or_default();
    files.sort();
    altrios_verif::panics::install_hook();
    let (mut passed, mut dbg_trips) = (0usize, 0usize);
    let mut failed: Vec<String> = vec![];
    for f in &files {
        let name = f.file_name().map(|x| x.to_string_lossy().to_string()).unwrap_or_default();
        let fx = match Fixture::load(f) {
            Some(fx) => fx,
            None => {
                failed.push(format!("{name}: unreadable fixture"));
                continue;
            }
        };
        let links = fx.links();
        let sims = fx.sims();
        // logical progress bound, as in the C05 monitor
        let attempts = std::rc::Rc::new(std::cell::Cell::new((0usize, 0usize)));
        let a2 = attempts.clone();
        set_dispatch_observer(Some(Box::new(move |s| {
            if s.phase == DispatchPhase::AdvanceAttempt {
                let (it, n) = a2.get();
                let n = if it == s.iteration { n + 1 } else { 1 };
                a2.set((s.iteration, n));
                if n > 20_000 {
                    panic!("VERIF-BOUND inner loop makes no progress");
                }
            }
        })));
        let outcome = altrios_verif::panics::guard(std::panic::AssertUnwindSafe(|| run_dispatch(&links, &sims, fx.nets.clone(), false, false)));
        set_dispatch_observer(None);
        let verdict: Result<(), String> = match outcome {
            Err(p) if altrios_verif::panics::is_debug_assert_site(&p) && p.message.contains("was placed past the back of train") => {
                dbg_trips += 1;
                Ok(())
            }
            Err(p) => Err(format!("panic: {} at {}", p.message.chars().take(160).collect::<String>(), p.location)),
            Ok(Err(e)) => {
                if format!("{e:#}").trim().is_empty() {
                    Err("empty error".into())
                } else {
                    Ok(())
                }
            }
            Ok(Ok(plan)) => (|| {
                if plan.len() != sims.len() {
                    return Err("a train was dropped".to_string());
                }
                for (k, route) in plan.iter().enumerate() {
                    if route.is_empty() {
                        return Err(format!("train {}: empty route", k + 1));
                    }
                    if !fx.origs[k].contains(&(route[0].link_idx.idx() as u32)) {
                        return Err(format!("train {}: route does not start on an origin", k + 1));
                    }
                    if route[0].time.value < fx.departs[k] - 1e-6 {
                        return Err(format!("train {}: starts before its departure", k + 1));
                    }
                    if route.iter().any(|x| !x.time.value.is_finite()) {
                        return Err(format!("train {}: non-finite arrival time", k + 1));
                    }
                    for w in route.windows(2) {
                        let l = &links[w[0].link_idx.idx()];
                        if l.idx_next != w[1].link_idx && l.idx_next_alt != w[1].link_idx {
                            return Err(format!("train {}: route not contiguous", k + 1));
                        }
                        if w[1].time.value < w[0].time.value - 1e-6 {
                            return Err(format!("train {}: arrival times decrease", k + 1));
                        }
                    }
                }
                Ok(())
            })(),
        };
        match verdict {
            Ok(()) => passed += 1,
            Err(e) => failed.push(format!("{name}: {e}")),
        }
    }
    println!("REGRESS-WORKLOAD fixtures={} passed={passed} crate_debug_assert_trips={dbg_trips} failed={}", files.len(), failed.len());
    for f in &failed {
        println!("REGRESS-FAILED {f}");
    }
    if !failed.is_empty() {
        std::process::exit(1);
    }
}

/// bit-level trace of one dispatch run (used to compare an interpreter run against a native one)
fn dispatch_trace(file: &str) {
    use altrios_core::verif_hooks::{set_dispatch_observer, DispatchPhase};
    let fx: Fixture = bincode::deserialize(&std::fs::read(file).unwrap()).unwrap();
    let mut h: u64 = 0;
    for n in &fx.nets {
        for e in &n.val {
            for v in [e.time_sched.value, e.time_to_next.value, e.dist_to_next.value, e.speed.value] {
                h = h.rotate_left(7) ^ v.to_bits();
            }
        }
    }
    println!("input-hash {h:016x}");
    let links = fx.links();
    let sims = fx.sims();
    set_dispatch_observer(Some(Box::new(|s| {
        if s.phase == DispatchPhase::EndOfIteration || s.phase == DispatchPhase::AfterAdvance || s.phase == DispatchPhase::AfterRewind {
            let mut ha: u64 = 0;
            for l in s.link_disp_auths {
                for a in l {
                    for v in [a.arrive_entry.value, a.arrive_exit.value, a.clear_entry.value, a.clear_exit.value, a.offset_front.value, a.offset_back.value] {
                        ha = ha.rotate_left(5) ^ v.to_bits();
                    }
                }
            }
            let tu: Vec<String> = s.train_disps.iter().skip(1).map(|t| format!("{:016x}", t.time_update().value.to_bits())).collect();
            println!("it {} {:?} moved {:?} auths {ha:016x} tu {}", s.iteration, s.phase, s.train_idx_moved, tu.join(","));
        }
    })));
    let r = run_dispatch(&links, &sims, fx.nets.clone(), false, false);
    set_dispatch_observer(None);
    println!("result ok={}", r.is_ok());
}

fn batch(seed: u64, n: usize, steps: usize) {
    let mut rng = Rng::new(seed);
    let sims: Vec<LocomotiveSimulation> = (0..n)
        .map(|i| {
            let mut l = if i % 2 == 0 { Locomotive::default() } else { Locomotive::default_battery_electric_loco() };
            if let Some(r) = l.reversible_energy_storage_mut() {
                r.state.soc = uc::R * 0.5;
            }
            let rating = l.get_pwr_rated().value;
            let mut t = vec![0.0];
            let mut p = vec![0.0];
            let len = steps + (i % 3);
            for k in 1..=len {
                t.push(t[k - 1] + 1.0);
                // element 1 of a batch with >= 3 elements fails at its second step when seed is odd
                p.push(if seed % 2 == 1 && i == 1 && k == 2 && n >= 3 { rating * 40.0 } else { rating * rng.range(0.0, 0.05) });
            }
            let m = t.len();
            LocomotiveSimulation::new(l, PowerTrace::new(t, p, vec![Some(true); m]), Some(1))
        })
        .collect();
    let serial: Vec<(bool, LocomotiveSimulation)> = sims.iter().map(|s| { let mut c = s.clone(); let ok = c.walk().is_ok(); (ok, c) }).collect();
    let any_fail = serial.iter().any(|s| !s.0);
    let mut v = LocomotiveSimulationVec(sims.clone());
    let r = v.walk(true);
    assert_eq!(r.is_err(), any_fail, "batch result does not reflect failing elements");
    for i in 0..n {
        let same = v.0[i] == serial[i].1;
        let untouched = v.0[i] == sims[i];
        assert!(same || (any_fail && untouched), "element {i} differs from its own serial walk");
    }
    println!("BATCH-WORKLOAD seed={seed} elements={n} steps={steps} failing={any_fail} compared={n} workers={}", rayon::current_num_threads());
}

fn main() {
    let a: Vec<String> = std::env::args().collect();
    match a.get(1).map(|s| s.as_str()) {
        Some("gen-fixtures") => gen_fixtures(&a[2], a[3].parse().unwrap(), a.get(4).and_then(|s| s.parse().ok()).unwrap_or(1), a.get(5).and_then(|s| s.parse().ok()).unwrap_or(usize::MAX)),
        Some("noop") => println!("avs built"),
        Some("dispatch") => dispatch(&a[2], a.get(3).and_then(|s| s.parse().ok()).unwrap_or(usize::MAX)),
        Some("regress") => regress(&a[2]),
        Some("dispatch-trace") => dispatch_trace(&a[2]),
        Some("batch") => batch(a[2].parse().unwrap(), a[3].parse().unwrap(), a[4].parse().unwrap()),
        _ => {
            eprintln!("usage: avs gen-fixtures <dir> <n> [seed] | dispatch <dir> [max] | batch <seed> <elements> <steps>");
            std::process::exit(2);
        }
    }
}
