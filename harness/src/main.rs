//! `av` — worker binary of the ALTRIOS runtime-monitoring harness (see /verif/DESIGN.md).
//!
//!   av worker <Cxx> --tier quick|thorough --seed S --shard i --nshards n --out file.json
//!                   [--only-case k] [--cases N]
//!
//! Every case k (global index) draws its randomness from (seed, property, k) only, so a case is
//! replayable on its own and results do not depend on the shard count.
use altrios_verif::{mon, panics, report, rng};

use report::{Ctx, Report};
use serde_json::json;
use std::time::Instant;

pub struct Args {
    pub prop: String,
    pub tier: String,
    pub seed: u64,
    pub shard: u64,
    pub nshards: u64,
    pub out: String,
    pub only_case: Option<u64>,
    pub cases: Option<u64>,
    pub extra: Vec<(String, String)>,
}

fn parse_args() -> Args {
    let argv: Vec<String> = std::env::args().collect();
    if argv.len() < 3 || argv[1] != "worker" {
        eprintln!("usage: av worker <Cxx> --tier T --seed S --shard i --nshards n --out f [--only-case k]");
        std::process::exit(2);
    }
    let mut a = Args {
        prop: argv[2].clone(),
        tier: "quick".into(),
        seed: 1,
        shard: 0,
        nshards: 1,
        out: String::new(),
        only_case: None,
        cases: None,
        extra: vec![],
    };
    let mut i = 3;
    while i < argv.len() {
        let k = argv[i].as_str();
        let v = argv.get(i + 1).cloned().unwrap_or_default();
        match k {
            "--tier" => a.tier = v,
            "--seed" => a.seed = v.parse().expect("seed"),
            "--shard" => a.shard = v.parse().expect("shard"),
            "--nshards" => a.nshards = v.parse().expect("nshards"),
            "--out" => a.out = v,
            "--only-case" => a.only_case = Some(v.parse().expect("only-case")),
            "--cases" => a.cases = Some(v.parse().expect("cases")),
            _ => a.extra.push((k.trim_start_matches("--").to_string(), v)),
        }
        i += 2;
    }
    a
}

fn main() {
    let args = parse_args();
    panics::install_hook();
    let t0 = Instant::now();
    let spec = match mon::spec(&args.prop) {
        Some(s) => s,
        None => {
            eprintln!("unknown property {}", args.prop);
            std::process::exit(2);
        }
    };
    let thorough = args.tier == "thorough";
    let total = args
        .cases
        .unwrap_or(if thorough { spec.cases_thorough } else { spec.cases_quick });
    let mut rep = Report {
        property: args.prop.clone(),
        tier: args.tier.clone(),
        seed: args.seed,
        shard: args.shard,
        nshards: args.nshards,
        rule: spec.rule.to_string(),
        assumptions: spec.assumptions.iter().map(|s| s.to_string()).collect(),
        ..Default::default()
    };
    let progress = format!("{}.progress", args.out);
    let cases: Vec<u64> = match args.only_case {
        Some(k) => vec![k],
        None => (0..total).filter(|k| k % args.nshards == args.shard).collect(),
    };
    for k in cases {
        if !args.out.is_empty() {
            let _ = std::fs::write(&progress, format!("{k}"));
        }
        let mut rng = rng::Rng::for_case(args.seed, spec.id, k);
        let mut ctx = Ctx {
            rep: &mut rep,
            case: k,
            prop: spec.id,
            case_violations: 0,
        };
        ctx.rep.evaluations += 1;
        let r = panics::guard(std::panic::AssertUnwindSafe(|| {
            (spec.run)(&mut ctx, &mut rng, thorough)
        }));
        if let Err(p) = r {
            // a panic that the monitor itself did not attribute: harness bug or a panic in repo code
            // on a path whose property does not own panics => case is inconclusive
            rep.inconclusive_cases += 1;
            rep.diag(json!({"case": k, "uncaught_panic": p.message, "location": p.location}));
        }
    }
    // scratch files of the file-API round trips (C17)
    let _ = std::fs::remove_dir_all(std::env::temp_dir().join(format!("altrios-verif-{}", std::process::id())));
    rep.wall_s = t0.elapsed().as_secs_f64();
    let s = serde_json::to_string(&rep).unwrap();
    if args.out.is_empty() {
        println!("{s}");
    } else {
        std::fs::write(&args.out, s).expect("write report");
        let _ = std::fs::remove_file(&progress);
    }
}
