//! SplitMix64-based deterministic generator. All randomness in the harness comes from here.

#[derive(Clone, Debug)]
pub struct Rng(u64);

pub fn mix(mut z: u64) -> u64 {
    z = z.wrapping_add(0x9E37_79B9_7F4A_7C15);
    z = (z ^ (z >> 30)).wrapping_mul(0xBF58_476D_1CE4_E5B9);
    z = (z ^ (z >> 27)).wrapping_mul(0x94D0_49BB_1331_11EB);
    z ^ (z >> 31)
}

pub fn hash_str(s: &str) -> u64 {
    let mut h = 0xcbf2_9ce4_8422_2325u64;
    for b in s.bytes() {
        h ^= b as u64;
        h = h.wrapping_mul(0x1000_0000_01b3);
    }
    mix(h)
}

pub fn hash_f64s(v: &[f64]) -> u64 {
    let mut h = 0x1234_5678u64;
    for x in v {
        h = mix(h ^ x.to_bits());
    }
    h
}

impl Rng {
    pub fn new(seed: u64) -> Self {
        Rng(mix(seed ^ 0xA5A5_5A5A_DEAD_BEEF))
    }
    /// generator for (global seed, property, case index)
    pub fn for_case(seed: u64, prop: &str, case: u64) -> Self {
        Rng::new(mix(seed).wrapping_add(hash_str(prop)) ^ mix(case.wrapping_mul(0x9E37_79B9)))
    }
    pub fn fork(&mut self) -> Rng {
        Rng::new(self.next_u64())
    }
    pub fn next_u64(&mut self) -> u64 {
        self.0 = self.0.wrapping_add(0x9E37_79B9_7F4A_7C15);
        let mut z = self.0;
        z = (z ^ (z >> 30)).wrapping_mul(0xBF58_476D_1CE4_E5B9);
        z = (z ^ (z >> 27)).wrapping_mul(0x94D0_49BB_1331_11EB);
        z ^ (z >> 31)
    }
    /// uniform in [0,1)
    pub fn f(&mut self) -> f64 {
        (self.next_u64() >> 11) as f64 / (1u64 << 53) as f64
    }
    pub fn range(&mut self, lo: f64, hi: f64) -> f64 {
        lo + (hi - lo) * self.f()
    }
    /// log-uniform in [lo,hi], lo>0
    pub fn lrange(&mut self, lo: f64, hi: f64) -> f64 {
        (self.range(lo.ln(), hi.ln())).exp()
    }
    /// integer in [lo,hi] inclusive
    pub fn int(&mut self, lo: i64, hi: i64) -> i64 {
        if hi <= lo {
            return lo;
        }
        lo + (self.next_u64() % ((hi - lo + 1) as u64)) as i64
    }
    pub fn usize(&mut self, lo: usize, hi: usize) -> usize {
        self.int(lo as i64, hi as i64) as usize
    }
    pub fn chance(&mut self, p: f64) -> bool {
        self.f() < p
    }
    pub fn pick<'a, T>(&mut self, v: &'a [T]) -> &'a T {
        &v[self.usize(0, v.len() - 1)]
    }
    pub fn shuffle<T>(&mut self, v: &mut [T]) {
        for i in (1..v.len()).rev() {
            let j = self.usize(0, i);
            v.swap(i, j);
        }
    }
}
