//! Panic capture: a hook that records message + location in a thread-local, and `guard`.
use std::cell::RefCell;
use std::panic::{catch_unwind, UnwindSafe};

#[derive(Clone, Debug)]
pub struct PanicInfo {
    pub message: String,
    pub location: String,
}

thread_local! {
    static LAST: RefCell<Option<PanicInfo>> = const { RefCell::new(None) };
}

pub fn install_hook() {
    std::panic::set_hook(Box::new(|info| {
        let message = if let Some(s) = info.payload().downcast_ref::<&str>() {
            s.to_string()
        } else if let Some(s) = info.payload().downcast_ref::<String>() {
            s.clone()
        } else {
            "<non-string panic payload>".to_string()
        };
        let location = info
            .location()
            .map(|l| format!("{}:{}", l.file(), l.line()))
            .unwrap_or_default();
        LAST.with(|l| *l.borrow_mut() = Some(PanicInfo { message, location }));
    }));
}

/// Run `f`, returning Err(PanicInfo) if it panicked (on this thread).
pub fn guard<T>(f: impl FnOnce() -> T + UnwindSafe) -> Result<T, PanicInfo> {
    LAST.with(|l| *l.borrow_mut() = None);
    match catch_unwind(f) {
        Ok(v) => Ok(v),
        Err(_) => Err(LAST.with(|l| l.borrow_mut().take()).unwrap_or(PanicInfo {
            message: "<panic on another thread or no hook info>".into(),
            location: String::new(),
        })),
    }
}

/// true if the panic location is inside the repository under test (not the harness, not std)
pub fn in_repo(p: &PanicInfo) -> bool {
    p.location.contains("altrios-core")
}
