//! Panic capture: a hook that records message + location in a thread-local, and `guard`.
use std::cell::RefCell;
use std::panic::{catch_unwind, UnwindSafe};

#[derive(Clone, Debug)]
pub struct PanicInfo {
    pub message: String,
    pub location: String,
}

thread_local! {
    static LAST: RefCell<Option<PanicInfo>> = const { RefCell::new(None) };
}

pub fn install_hook() {
    std::panic::set_hook(Box::new(|info| {
        let message = if let Some(s) = info.payload().downcast_ref::<&str>() {
            s.to_string()
        } else if let Some(s) = info.payload().downcast_ref::<String>() {
            s.clone()
        } else {
            "<non-string panic payload>".to_string()
        };
        let location = info
            .location()
            .map(|l| format!("{}:{}", l.file(), l.line()))
            .unwrap_or_default();
        if message.contains("unsafe precondition") || message.contains("panic in a function that cannot unwind") {
            // the process is about to abort (e.g. a failed unsafe precondition check): leave the
            // reason on stderr for the driver
            eprintln!("non-unwinding panic at {location}: {message}");
        }
        LAST.with(|l| *l.borrow_mut() = Some(PanicInfo { message, location }));
    }));
}

/// Like [install_hook], but also prints the panic in the standard form (used by the sanitizer workloads, whose
/// driver classifies a failing process by its stderr)
pub fn install_printing_hook() {
    std::panic::set_hook(Box::new(|info| {
        let message = if let Some(s) = info.payload().downcast_ref::<&str>() {
            s.to_string()
        } else if let Some(s) = info.payload().downcast_ref::<String>() {
            s.clone()
        } else {
            "<non-string panic payload>".to_string()
        };
        let location = info.location().map(|l| format!("{}:{}", l.file(), l.line())).unwrap_or_default();
        eprintln!("thread panicked at {location}:\n{message}");
        LAST.with(|l| *l.borrow_mut() = Some(PanicInfo { message, location }));
    }));
}

/// Run `f`, returning Err(PanicInfo) if it panicked (on this thread).
pub fn guard<T>(f: impl FnOnce() -> T + UnwindSafe) -> Result<T, PanicInfo> {
    LAST.with(|l| *l.borrow_mut() = None);
    match catch_unwind(f) {
        Ok(v) => Ok(v),
        Err(_) => Err(LAST.with(|l| l.borrow_mut().take()).unwrap_or(PanicInfo {
            message: "<panic on another thread or no hook info>".into(),
            location: String::new(),
        })),
    }
}

/// true if the panic location is inside the repository under test (not the harness, not std)
pub fn in_repo(p: &PanicInfo) -> bool {
    p.location.contains("altrios-core")
}

/// true if the panic was raised by one of the crate's own debug_assert!s (sites listed by
/// tools/debug_assert_sites.py into bin/debug_assert_sites.txt next to the binary)
pub fn is_debug_assert_site(p: &PanicInfo) -> bool {
    use std::sync::OnceLock;
    static SITES: OnceLock<Vec<String>> = OnceLock::new();
    let sites = SITES.get_or_init(|| {
        // next to the binary (bin/), or - for the sanitizer / interpreter builds, whose binaries live in their
        // own target directories - in the bin/ directory of the checkout the crate was built from
        let mut candidates: Vec<std::path::PathBuf> = vec![];
        if let Ok(e) = std::env::current_exe() {
            if let Some(d) = e.parent() {
                candidates.push(d.join("debug_assert_sites.txt"));
            }
        }
        for up in ["../bin", "../../bin"] {
            candidates.push(std::path::Path::new(env!("CARGO_MANIFEST_DIR")).join(up).join("debug_assert_sites.txt"));
        }
        candidates.iter().find_map(|f| std::fs::read_to_string(f).ok()).map(|s| s.lines().map(|l| l.trim().to_string()).filter(|l| !l.is_empty()).collect()).unwrap_or_default()
    });
    sites.iter().any(|s| p.location.ends_with(s.as_str()))
}
