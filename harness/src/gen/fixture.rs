//! Compact, self-contained dispatch instances (bincode): the track topology run_dispatch reads, the
//! departures and the trains' estimated-time networks. Used by the sanitizer workloads (`avs`) and for the
//! regression corpus of instances that once exposed a defect (`/verif/regress/dispatch/`).
use altrios_core::meet_pass::est_times::EstTimeNet;
use altrios_core::prelude::*;
use altrios_core::track::{Link, LinkIdx};
use altrios_core::uc;
use serde::{Deserialize, Serialize};

#[derive(Serialize, Deserialize)]
pub struct Fixture {
    /// per link: flip, next, next_alt, prev, prev_alt, lockouts, length
    pub links: Vec<(u32, u32, u32, u32, u32, Vec<u32>, f64)>,
    pub departs: Vec<f64>,
    pub origs: Vec<Vec<u32>>,
    pub dests: Vec<Vec<u32>>,
    pub nets: Vec<EstTimeNet>,
}

impl Fixture {
    pub fn new(links: &[Link], departs: Vec<f64>, origs: Vec<Vec<u32>>, dests: Vec<Vec<u32>>, nets: Vec<EstTimeNet>) -> Self {
        let links = links
            .iter()
            .map(|l| (l.idx_flip.idx() as u32, l.idx_next.idx() as u32, l.idx_next_alt.idx() as u32, l.idx_prev.idx() as u32, l.idx_prev_alt.idx() as u32, l.link_idxs_lockout.iter().map(|x| x.idx() as u32).collect(), l.length.value))
            .collect();
        Fixture { links, departs, origs, dests, nets }
    }

    pub fn links(&self) -> Vec<Link> {
        self.links
            .iter()
            .enumerate()
            .map(|(i, l)| Link { idx_curr: LinkIdx::new(i as u32), idx_flip: LinkIdx::new(l.0), idx_next: LinkIdx::new(l.1), idx_next_alt: LinkIdx::new(l.2), idx_prev: LinkIdx::new(l.3), idx_prev_alt: LinkIdx::new(l.4),
                link_idxs_lockout: l.5.iter().map(|x| LinkIdx::new(*x)).collect(), length: uc::M * l.6, ..Default::default() })
            .collect()
    }

    /// run_dispatch reads only train_id and the departure time of the simulations
    pub fn sims(&self) -> Vec<SpeedLimitTrainSim> {
        self.departs
            .iter()
            .enumerate()
            .map(|(k, d)| {
                let mut s = SpeedLimitTrainSim::default();
                s.train_id = format!("t{k}");
                s.state.time = uc::S * *d;
                s
            })
            .collect()
    }

    pub fn save(&self, path: &std::path::Path) -> std::io::Result<()> {
        std::fs::write(path, bincode::serialize(self).map_err(|e| std::io::Error::new(std::io::ErrorKind::Other, e.to_string()))?)
    }

    pub fn load(path: &std::path::Path) -> Option<Self> {
        bincode::deserialize(&std::fs::read(path).ok()?).ok()
    }
}
