//! Seeded generator of valid track networks (DESIGN §3): a chain of "gaps", each gap one segment or
//! two parallel segments (main + siding / two origins / two destinations), every physical segment
//! as a forward link and (optionally) its flip, indices optionally permuted.
use crate::rng::Rng;
use altrios_core::track::{
    CatPowerLimit, CompareType, Elev, Heading, LimitType, Link, LinkIdx, SpeedLimit, SpeedParam,
    SpeedSet, TrainType,
};
use altrios_core::uc;
use std::collections::HashMap;

#[derive(Clone, Debug)]
pub struct NetOpts {
    pub gaps: (usize, usize),
    /// segment length range [m]
    pub len: (f64, f64),
    /// probability that an interior gap is double (siding); first/last gap double = 2 origins/destinations
    pub p_double: f64,
    pub p_double_ends: f64,
    pub flips: bool,
    pub shuffle_idx: bool,
    /// offsets / lengths multiples of 0.5 m (exact arithmetic, deliberate coincidences) vs arbitrary floats
    pub exact_offsets: bool,
    pub p_headings: f64,
    pub p_cat: f64,
    pub max_restrictions: usize,
    pub grade_max: f64,
    /// allow zero-length restrictions (flagged sub-domain)
    pub zero_len: bool,
    /// allow restrictions that end past the end of their link (flagged sub-domain)
    pub overhang: bool,
    pub p_lockout: f64,
    /// speed-set layout: 0 = every link `speed_set: Some`, 1 = every link typed `speed_sets`, 2 = mixed
    pub speed_layout: usize,
    pub p_params: f64,
    /// lowest restriction speed [m/s]
    pub v_min: f64,
    /// (fault injection only) allow two adjacent double gaps = coincident switch points
    pub allow_adjacent_double: bool,
    /// (probability, lo, hi): a share of segments much shorter than one step of travel
    pub short_links: Option<(f64, f64, f64)>,
    /// probability of a 'staircase' set: abutting short zones of decreasing speed ending in a long slow zone
    pub p_staircase: f64,
}

impl NetOpts {
    pub fn path_default(rng: &mut Rng) -> Self {
        NetOpts {
            gaps: (1, 9),
            len: if rng.chance(0.5) { (30.0, 3000.0) } else { (30.0, 30000.0) },
            p_double: 0.3,
            p_double_ends: 0.2,
            flips: rng.chance(0.7),
            shuffle_idx: rng.chance(0.5),
            exact_offsets: rng.chance(0.6),
            p_headings: 0.6,
            p_cat: 0.3,
            max_restrictions: 6,
            grade_max: 0.025,
            zero_len: false,
            overhang: false,
            p_lockout: 0.0,
            speed_layout: rng.usize(0, 2),
            p_params: 0.3,
            v_min: 2.0,
            allow_adjacent_double: false,
            short_links: None,
            p_staircase: 0.0,
        }
    }
}

#[derive(Clone, Debug)]
pub struct GenNet {
    pub links: Vec<Link>,
    /// forward link indices per gap (1 or 2 entries)
    pub gaps: Vec<Vec<u32>>,
    /// flip index of each forward link (0 if none)
    pub has_flips: bool,
    pub train_types: Vec<TrainType>,
    pub flags: Vec<&'static str>,
}

fn q(x: f64, exact: bool) -> f64 {
    if exact {
        (x * 2.0).round() / 2.0
    } else {
        x
    }
}

pub const SPEEDS: [f64; 9] = [2.0, 4.5, 8.0, 11.0, 13.4, 17.9, 22.35, 26.8, 35.0];

pub fn speed_param(rng: &mut Rng) -> SpeedParam {
    let limit_type = *rng.pick(&[LimitType::MassTotal, LimitType::MassPerBrake, LimitType::AxleCount]);
    let compare_type = *rng.pick(&[
        CompareType::TpEqualRp,
        CompareType::TpGreaterThanRp,
        CompareType::TpLessThanRp,
        CompareType::TpGreaterThanEqualRp,
        CompareType::TpLessThanEqualRp,
    ]);
    let limit_val = match limit_type {
        LimitType::MassTotal => *rng.pick(&[1.0e6, 5.0e6, 1.297e7, 2.0e7]),
        LimitType::MassPerBrake => *rng.pick(&[5.0e4, 1.0e5, 129727.4121, 2.0e5]),
        LimitType::AxleCount => *rng.pick(&[40.0, 200.0, 400.0, 800.0]),
    };
    SpeedParam { limit_val, limit_type, compare_type }
}

/// restrictions with controlled pairwise relations; returned sorted and with unique (start,end) pairs
pub fn restrictions(rng: &mut Rng, len: f64, o: &NetOpts, flags: &mut Vec<&'static str>) -> Vec<SpeedLimit> {
    if o.p_staircase > 0.0 && len > 800.0 && rng.chance(o.p_staircase) {
        // abutting short steps down (each shorter than the braking distance between them), then a long slow zone
        let ex = o.exact_offsets;
        let mut v = vec![];
        let mut x = q(rng.range(0.1, 0.6) * len, ex);
        let mut sp = *rng.pick(&[22.35, 17.9, 16.0]);
        let steps = rng.usize(2, 4);
        for _ in 0..steps {
            let w = q(rng.range(25.0, 160.0), ex).max(1.0);
            if x + w >= len - 50.0 {
                break;
            }
            v.push(SpeedLimit { offset_start: uc::M * x, offset_end: uc::M * (x + w), speed: uc::MPS * sp });
            x += w;
            sp = (sp - rng.range(2.5, 6.0)).max(o.v_min + 1.0);
        }
        let sp_last = (sp - rng.range(2.0, 6.0)).max(o.v_min);
        v.push(SpeedLimit { offset_start: uc::M * x, offset_end: uc::M * len, speed: uc::MPS * sp_last });
        if !flags.contains(&"staircase") {
            flags.push("staircase");
        }
        return v;
    }
    let n = rng.usize(1, o.max_restrictions.max(1));
    let mut v: Vec<(f64, f64, f64)> = vec![];
    let ex = o.exact_offsets;
    for i in 0..n {
        let speed = if rng.chance(0.8) { *rng.pick(&SPEEDS) } else { rng.range(o.v_min, 40.0) }.max(o.v_min);
        let (s, e) = if i == 0 && rng.chance(0.5) {
            (0.0, len) // whole link
        } else if v.is_empty() || rng.chance(0.25) {
            let a = q(rng.range(0.0, len), ex);
            let b = q(rng.range(0.0, len), ex);
            (a.min(b), a.max(b))
        } else {
            let (ps, pe, _) = *rng.pick(&v);
            let w = pe - ps;
            match rng.usize(0, 7) {
                0 => (q(ps + w * rng.range(0.05, 0.45), ex), q(ps + w * rng.range(0.55, 0.95), ex)), // nested strictly inside
                1 => (q(ps + w * rng.range(0.2, 0.8), ex), q((pe + (len - pe) * rng.f()).min(len), ex)), // overlapping to the right
                2 => (q(ps * rng.f(), ex), q(ps + w * rng.range(0.2, 0.8), ex)),                      // overlapping to the left
                3 => (pe, q(pe + (len - pe) * rng.f(), ex)),                                          // abutting after
                4 => (q(ps * rng.f(), ex), ps),                                                       // abutting before
                5 => (ps, q(ps + w * rng.range(0.1, 0.9), ex)),                                       // equal start
                6 => (q(ps + w * rng.range(0.1, 0.9), ex), pe),                                       // equal end
                _ => (q(ps * rng.f(), ex), q((pe + (len - pe) * rng.f()).min(len), ex)),              // enclosing
            }
        };
        let (mut s, mut e) = (s.max(0.0), e.max(0.0));
        if e < s {
            std::mem::swap(&mut s, &mut e);
        }
        if o.overhang && rng.chance(0.05) {
            e = len + q(rng.range(1.0, 500.0), ex);
            if !flags.contains(&"overhang") {
                flags.push("overhang");
            }
        }
        if e == s {
            if o.zero_len && rng.chance(0.5) {
                if !flags.contains(&"zero_len") {
                    flags.push("zero_len");
                }
            } else {
                continue;
            }
        }
        v.push((s, e, speed));
    }
    if v.is_empty() {
        v.push((0.0, len, *rng.pick(&SPEEDS)));
    }
    v.sort_by(|a, b| a.partial_cmp(b).unwrap());
    v.dedup_by(|b, a| a.0 == b.0 && a.1 == b.1);
    v.into_iter()
        .map(|(s, e, sp)| SpeedLimit { offset_start: uc::M * s, offset_end: uc::M * e, speed: uc::MPS * sp })
        .collect()
}

pub fn speed_set(rng: &mut Rng, len: f64, o: &NetOpts, flags: &mut Vec<&'static str>) -> SpeedSet {
    let mut params = vec![];
    if rng.chance(o.p_params) {
        for _ in 0..rng.usize(1, 2) {
            let p = speed_param(rng);
            if params.last() != Some(&p) {
                params.push(p);
            }
        }
    }
    SpeedSet { speed_limits: restrictions(rng, len, o, flags), speed_params: params, is_head_end: rng.chance(0.4) }
}

fn mirror_limits(v: &[SpeedLimit], len: f64) -> Vec<SpeedLimit> {
    let mut w: Vec<SpeedLimit> = v
        .iter()
        .map(|s| SpeedLimit {
            offset_start: uc::M * (len - s.offset_end.value).max(0.0),
            offset_end: uc::M * (len - s.offset_start.value),
            speed: s.speed,
        })
        .collect();
    w.sort_by(|a, b| a.partial_cmp(b).unwrap());
    w.dedup_by(|b, a| a.offset_start == b.offset_start && a.offset_end == b.offset_end);
    w
}

fn mirror_set(s: &SpeedSet, len: f64) -> SpeedSet {
    SpeedSet { speed_limits: mirror_limits(&s.speed_limits, len), speed_params: s.speed_params.clone(), is_head_end: s.is_head_end }
}

struct Seg {
    len: f64,
    elevs: Vec<(f64, f64)>,
    headings: Vec<(f64, f64)>,
    speed_set: Option<SpeedSet>,
    speed_sets: HashMap<TrainType, SpeedSet>,
    cat: Vec<(f64, f64, f64)>,
}

fn make_seg(rng: &mut Rng, o: &NetOpts, z0: f64, z1_target: Option<f64>, typed: bool, types: &[TrainType], flags: &mut Vec<&'static str>) -> (Seg, f64) {
    let ex = o.exact_offsets;
    let mut len = q(rng.lrange(o.len.0, o.len.1), ex).max(if ex { 1.0 } else { 0.5 });
    if let Some((p, lo, hi)) = o.short_links {
        if rng.chance(p) {
            len = q(rng.range(lo, hi), ex).max(if ex { 1.0 } else { 0.5 });
        }
    }
    // elevation profile: 2..8 points, |grade| <= grade_max
    let n = rng.usize(2, 8);
    let mut offs: Vec<f64> = vec![0.0, len];
    let mut guard = 0;
    while offs.len() < n && guard < 50 {
        guard += 1;
        let x = q(rng.range(0.0, len), ex);
        if x > 0.0 && x < len && !offs.iter().any(|y| (*y - x).abs() < if ex { 0.5 } else { 1e-3 }) {
            offs.push(x);
        }
    }
    offs.sort_by(|a, b| a.partial_cmp(b).unwrap());
    let mut elevs = vec![(0.0, z0)];
    let style = rng.usize(0, 3);
    for w in 1..offs.len() {
        let d = offs[w] - offs[w - 1];
        let g = match style {
            0 => 0.0,
            1 => o.grade_max * if rng.chance(0.5) { 1.0 } else { -1.0 } * rng.f(),
            _ => rng.range(-o.grade_max, o.grade_max),
        };
        let z = elevs[w - 1].1 + g * d;
        elevs.push((offs[w], z));
    }
    // bend the last piece towards a target end elevation (parallel segments share end nodes) if feasible
    if let Some(zt) = z1_target {
        let k = elevs.len() - 1;
        let d = elevs[k].0 - elevs[k - 1].0;
        let g = (zt - elevs[k - 1].1) / d;
        if g.abs() <= o.grade_max {
            elevs[k].1 = zt;
        }
    }
    let z1 = elevs.last().unwrap().1;
    // headings
    let mut headings = vec![];
    if rng.chance(o.p_headings) {
        let n = rng.usize(2, 6);
        let mut hoffs: Vec<f64> = vec![0.0, len];
        let mut guard = 0;
        while hoffs.len() < n && guard < 50 {
            guard += 1;
            let x = q(rng.range(0.0, len), ex);
            if x > 0.0 && x < len && !hoffs.iter().any(|y| (*y - x).abs() < if ex { 0.5 } else { 1e-3 }) {
                hoffs.push(x);
            }
        }
        hoffs.sort_by(|a, b| a.partial_cmp(b).unwrap());
        let two_pi = std::f64::consts::PI * 2.0;
        let mut h = if rng.chance(0.3) { 6.2 } else { rng.range(0.0, two_pi * 0.999) };
        for (i, x) in hoffs.iter().enumerate() {
            if i > 0 {
                let d = x - hoffs[i - 1];
                // up to ~8 degrees per 100 ft, both directions; wraps around
                let dh = rng.range(-0.0045, 0.0045) * d * if rng.chance(0.3) { 0.0 } else { 1.0 };
                let dh = dh.clamp(-3.0, 3.0);
                h = (h + dh).rem_euclid(two_pi);
                if h >= two_pi {
                    h = 0.0;
                }
            }
            headings.push((*x, h));
        }
    }
    // speed sets
    let (speed_set_o, speed_sets) = if typed {
        let mut m = HashMap::new();
        for t in types {
            m.insert(*t, speed_set(rng, len, o, flags));
        }
        (None, m)
    } else {
        (Some(speed_set(rng, len, o, flags)), HashMap::new())
    };
    // catenary: 0..3 disjoint sorted sections
    let mut cat = vec![];
    if rng.chance(o.p_cat) {
        let k = rng.usize(1, 3);
        let mut cuts: Vec<f64> = (0..2 * k).map(|_| q(rng.range(0.0, len), ex)).collect();
        cuts.sort_by(|a, b| a.partial_cmp(b).unwrap());
        if k >= 2 && rng.chance(0.3) {
            // adjoining sections: one ends exactly where the next begins (no overlap, no gap)
            cuts[2] = cuts[1];
            if !flags.contains(&"adjoining_catenary_sections") {
                flags.push("adjoining_catenary_sections");
            }
        }
        for c in cuts.chunks(2) {
            if c[1] > c[0] {
                cat.push((c[0], c[1], *rng.pick(&[1.0e6, 5.0e6, 8.0e6])));
            }
        }
        // strictly disjoint
        cat.dedup_by(|b, a| b.0 < a.1);
    }
    (Seg { len, elevs, headings, speed_set: speed_set_o, speed_sets, cat }, z1)
}

fn seg_to_link(s: &Seg, flipped: bool) -> Link {
    let len = s.len;
    let mut l = Link { length: uc::M * len, ..Default::default() };
    if !flipped {
        l.elevs = s.elevs.iter().map(|(x, z)| Elev::new(uc::M * *x, uc::M * *z)).collect();
        l.headings = s.headings.iter().map(|(x, h)| Heading { offset: uc::M * *x, heading: uc::RAD * *h, lat: None, lon: None }).collect();
        l.speed_set = s.speed_set.clone();
        l.speed_sets = s.speed_sets.clone();
        l.cat_power_limits = s.cat.iter().map(|(a, b, p)| CatPowerLimit { offset_start: uc::M * *a, offset_end: uc::M * *b, power_limit: uc::W * *p, district_id: None }).collect();
    } else {
        let two_pi = std::f64::consts::PI * 2.0;
        l.elevs = s.elevs.iter().rev().map(|(x, z)| Elev::new(uc::M * (len - *x), uc::M * *z)).collect();
        l.headings = s
            .headings
            .iter()
            .rev()
            .map(|(x, h)| {
                let mut hh = (*h + std::f64::consts::PI).rem_euclid(two_pi);
                if hh >= two_pi {
                    hh = 0.0;
                }
                Heading { offset: uc::M * (len - *x), heading: uc::RAD * hh, lat: None, lon: None }
            })
            .collect();
        l.speed_set = s.speed_set.as_ref().map(|x| mirror_set(x, len));
        l.speed_sets = s.speed_sets.iter().map(|(k, v)| (*k, mirror_set(v, len))).collect();
        l.cat_power_limits = s.cat.iter().rev().map(|(a, b, p)| CatPowerLimit { offset_start: uc::M * (len - *b), offset_end: uc::M * (len - *a), power_limit: uc::W * *p, district_id: None }).collect();
    }
    l
}

pub fn network(rng: &mut Rng, o: &NetOpts) -> GenNet {
    let mut flags: Vec<&'static str> = vec![];
    let ngaps = rng.usize(o.gaps.0, o.gaps.1);
    // gap widths: no two adjacent double gaps (validation forbids coincident switch points)
    let mut width = vec![1usize; ngaps];
    for g in 0..ngaps {
        let p = if g == 0 || g == ngaps - 1 { o.p_double_ends } else { o.p_double };
        if ngaps >= 2 && rng.chance(p) && (g == 0 || width[g - 1] == 1 || o.allow_adjacent_double) {
            width[g] = 2;
        }
    }
    let all_types = [TrainType::Freight, TrainType::Passenger, TrainType::Intermodal];
    let ntypes = rng.usize(1, 3);
    let types: Vec<TrainType> = all_types[..ntypes].to_vec();
    // typed speed sets may also carry an entry for a type no generated train has (here: TrainType::None), with
    // limits of its own; it must never influence a train of another type
    let mut set_types = types.clone();
    if rng.chance(0.15) {
        set_types.push(TrainType::None);
        flags.push("speed_set_for_an_unused_type");
    }
    // segments
    let mut segs: Vec<Seg> = vec![];
    let mut gap_segs: Vec<Vec<usize>> = vec![];
    let mut z = rng.range(0.0, 500.0);
    for g in 0..ngaps {
        let mut ids = vec![];
        let mut z_end = None;
        for _ in 0..width[g] {
            let typed = match o.speed_layout {
                0 => false,
                1 => true,
                _ => rng.chance(0.5),
            };
            let (s, z1) = make_seg(rng, o, z, z_end, typed, &set_types, &mut flags);
            if z_end.is_none() {
                z_end = Some(z1);
            }
            ids.push(segs.len());
            segs.push(s);
        }
        z = z_end.unwrap();
        gap_segs.push(ids);
    }
    let nseg = segs.len();
    // index assignment: forward link of seg i, flip link of seg i
    let nlinks = if o.flips { 2 * nseg } else { nseg };
    let mut perm: Vec<u32> = (1..=nlinks as u32).collect();
    if o.shuffle_idx {
        rng.shuffle(&mut perm);
    }
    let fwd = |i: usize| perm[i];
    let flip = |i: usize| if o.flips { perm[nseg + i] } else { 0 };
    let mut links: Vec<Link> = vec![Link::default(); nlinks + 1];
    for g in 0..ngaps {
        for (k, &si) in gap_segs[g].iter().enumerate() {
            let _ = k;
            let mut f = seg_to_link(&segs[si], false);
            f.idx_curr = LinkIdx::new(fwd(si));
            f.idx_flip = LinkIdx::new(flip(si));
            let nexts: Vec<usize> = if g + 1 < ngaps { gap_segs[g + 1].clone() } else { vec![] };
            let prevs: Vec<usize> = if g > 0 { gap_segs[g - 1].clone() } else { vec![] };
            f.idx_next = LinkIdx::new(nexts.first().map(|&i| fwd(i)).unwrap_or(0));
            f.idx_next_alt = LinkIdx::new(nexts.get(1).map(|&i| fwd(i)).unwrap_or(0));
            f.idx_prev = LinkIdx::new(prevs.first().map(|&i| fwd(i)).unwrap_or(0));
            f.idx_prev_alt = LinkIdx::new(prevs.get(1).map(|&i| fwd(i)).unwrap_or(0));
            if o.flips {
                let mut r = seg_to_link(&segs[si], true);
                r.idx_curr = LinkIdx::new(flip(si));
                r.idx_flip = LinkIdx::new(fwd(si));
                r.idx_next = LinkIdx::new(prevs.first().map(|&i| flip(i)).unwrap_or(0));
                r.idx_next_alt = LinkIdx::new(prevs.get(1).map(|&i| flip(i)).unwrap_or(0));
                r.idx_prev = LinkIdx::new(nexts.first().map(|&i| flip(i)).unwrap_or(0));
                r.idx_prev_alt = LinkIdx::new(nexts.get(1).map(|&i| flip(i)).unwrap_or(0));
                let ri = r.idx_curr.idx();
                links[ri] = r;
            }
            let fi = f.idx_curr.idx();
            links[fi] = f;
        }
        // lockouts between the two parallel segments of a double gap (both directions)
        if gap_segs[g].len() == 2 && rng.chance(o.p_lockout) {
            let (a, b) = (gap_segs[g][0], gap_segs[g][1]);
            let mut pairs = vec![(fwd(a), fwd(b))];
            if o.flips {
                pairs.push((flip(a), flip(b)));
                pairs.push((fwd(a), flip(b)));
                pairs.push((flip(a), fwd(b)));
            }
            for (x, y) in pairs {
                links[x as usize].link_idxs_lockout.push(LinkIdx::new(y));
                links[y as usize].link_idxs_lockout.push(LinkIdx::new(x));
            }
            if !flags.contains(&"lockout") {
                flags.push("lockout");
            }
        }
    }
    GenNet {
        links,
        gaps: gap_segs.iter().map(|v| v.iter().map(|&i| fwd(i)).collect()).collect(),
        has_flips: o.flips,
        train_types: types,
        flags,
    }
}

impl GenNet {
    /// a random contiguous route (forward direction, or along the flips when `reverse`)
    pub fn route(&self, rng: &mut Rng, reverse: bool, full: bool) -> Vec<LinkIdx> {
        let n = self.gaps.len();
        let (a, b) = if full { (0, n - 1) } else {
            let a = rng.usize(0, n - 1);
            (a, rng.usize(a, n - 1))
        };
        let mut r: Vec<LinkIdx> = (a..=b).map(|g| LinkIdx::new(*rng.pick(&self.gaps[g]))).collect();
        if reverse && self.has_flips {
            r = r.iter().rev().map(|i| self.links[i.idx()].idx_flip).collect();
        }
        r
    }
}

/// the crate's own network validation, as a string result
pub fn validate(links: &[Link]) -> Result<(), String> {
    use altrios_core::validate::ObjState;
    links.validate().map_err(|e| format!("{e}").chars().take(600).collect())
}
