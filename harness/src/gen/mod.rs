pub mod powertrain;
