pub mod dispatch;
pub mod fixture;
pub mod network;
pub mod powertrain;
pub mod train;
