pub mod network;
pub mod powertrain;
