pub mod dispatch;
pub mod network;
pub mod powertrain;
pub mod train;
