//! Generator of estimated-time / dispatch instances (DESIGN §3): networks whose origin-destination
//! routes are 10-60 km (make_est_times needs more than its 5-mile look-ahead), trains in both
//! directions with equal and distinct departure times.
use crate::gen::network::{self as gn, GenNet, NetOpts};
use crate::gen::train::{self as gt, TrainSpec};
use crate::rng::Rng;
use altrios_core::prelude::*;
use altrios_core::track::{Link, Location};
use altrios_core::uc;
use std::collections::HashMap;

pub struct TrainCase {
    pub spec_idx: usize,
    pub reverse: bool,
    pub depart: f64,
    pub sim: SpeedLimitTrainSim,
    pub origs: Vec<u32>,
    pub dests: Vec<u32>,
}

pub struct Instance {
    pub net: GenNet,
    pub links: Vec<Link>,
    pub lm: HashMap<String, Vec<Location>>,
    pub specs: Vec<TrainSpec>,
    pub trains: Vec<TrainCase>,
    pub route_len: f64,
}

pub fn disp_net_opts(rng: &mut Rng) -> NetOpts {
    let mut o = NetOpts::path_default(rng);
    // long corridors (meets only happen when the corridor is longer than the dispatcher's 10-mile fixed
    // distance) as well as short ones
    if rng.chance(0.6) {
        o.gaps = (14, 45);
        o.len = (1000.0, 6000.0);
    } else {
        o.gaps = (5, 24);
        o.len = (400.0, 6000.0);
    }
    o.p_double = *rng.pick(&[0.0, 0.25, 0.4, 0.5]);
    o.p_double_ends = 0.25;
    o.flips = true;
    o.grade_max = *rng.pick(&[0.0, 0.004, 0.008]);
    o.max_restrictions = 2;
    o.v_min = 8.0;
    o.p_cat = 0.0;
    o.p_headings = 0.3;
    o.p_lockout = *rng.pick(&[0.0, 0.15, 0.5]);
    o.speed_layout = rng.usize(0, 1);
    o.p_params = 0.0;
    o.zero_len = false;
    o.overhang = false;
    o
}

/// Mutual exclusion between segments that are not neighbours (an interlocking two gaps apart): each
/// direction of the one segment lists both directions of the other. Only between gaps separated by
/// more than `min_separation` (the longest train of the instance plus a margin), so that no train holds both itself.
fn add_remote_lockouts(rng: &mut Rng, net: &mut GenNet, min_separation: f64) {
    let n = net.gaps.len();
    if n < 4 || !net.has_flips {
        return;
    }
    for _ in 0..rng.usize(1, 3) {
        let g = rng.usize(0, n - 3);
        let between: f64 = net.gaps[g + 1].iter().map(|l| net.links[*l as usize].length.value).fold(f64::INFINITY, f64::min);
        if between < min_separation {
            continue;
        }
        let x = *rng.pick(&net.gaps[g]) as usize;
        let y = *rng.pick(&net.gaps[g + 2]) as usize;
        let (xf, yf) = (net.links[x].idx_flip.idx(), net.links[y].idx_flip.idx());
        if xf == 0 || yf == 0 || net.links[x].link_idxs_lockout.iter().any(|l| l.idx() == y) {
            continue;
        }
        for (a, b1, b2) in [(x, y, yf), (xf, y, yf), (y, x, xf), (yf, x, xf)] {
            // listing order varies: the same-direction partner first or last
            let (b1, b2) = if rng.chance(0.5) { (b1, b2) } else { (b2, b1) };
            net.links[a].link_idxs_lockout.push(altrios_core::track::LinkIdx::new(b1 as u32));
            net.links[a].link_idxs_lockout.push(altrios_core::track::LinkIdx::new(b2 as u32));
        }
        if !net.flags.contains(&"remote_lockout") {
            net.flags.push("remote_lockout");
        }
    }
}

pub fn instance(rng: &mut Rng, max_trains: usize) -> Option<Instance> {
    instance_family(rng, max_trains, false)
}

/// `congested`: a long corridor of short segments whose few passing sidings are shorter than the trains, with
/// four or more long trains in alternating directions leaving within minutes of each other. Trains that have
/// been fixed into the corridor from both ends cannot pass each other: the family in which `run_dispatch` is
/// expected to give up with its "got stuck" error (the error branch of C05) or to serialise the trains.
pub fn instance_family(rng: &mut Rng, max_trains: usize, congested: bool) -> Option<Instance> {
    for _ in 0..30 {
        let mut o = disp_net_opts(rng);
        if congested {
            o.gaps = (28, 45);
            o.len = (400.0, 1500.0);
            o.p_double = *rng.pick(&[0.05, 0.1, 0.2]);
            o.p_double_ends = *rng.pick(&[0.0, 0.25, 1.0]);
            o.p_lockout = 0.0;
        }
        let mut net = gn::network(rng, &o);
        let want_remote_lockouts = rng.chance(0.25);
        if gn::validate(&net.links).is_err() {
            continue;
        }
        // shortest origin-destination route must exceed the look-ahead
        let route_len: f64 = net.gaps.iter().map(|g| g.iter().map(|l| net.links[*l as usize].length.value).fold(f64::INFINITY, f64::min)).sum();
        if !(10_000.0..=160_000.0).contains(&route_len) {
            continue;
        }
        let lm = gt::location_map(&net);
        let nspecs = rng.usize(1, 3);
        let first_len = net.gaps[0].iter().chain(net.gaps[net.gaps.len() - 1].iter()).map(|l| net.links[*l as usize].length.value).fold(f64::INFINITY, f64::min);
        let specs: Vec<TrainSpec> = (0..nspecs)
            .map(|_| {
                let max_len = if congested { 2500.0 } else if rng.chance(0.7) { (first_len * 0.9).min(2500.0) } else { 2500.0 };
                gt::train(rng, &net.train_types, max_len.max(120.0), o.grade_max)
            })
            .collect();
        if want_remote_lockouts {
            // only between segments further apart than the longest train of this instance: a train that holds both
            // segments of a lockout pair itself is a contradictory input (observed: run_dispatch then returns Ok
            // with infinite times for that train, because the lockout's clearing time is its own, still open,
            // authority)
            let longest = specs.iter().map(|s| s.length).fold(0.0, f64::max);
            add_remote_lockouts(rng, &mut net, longest + 150.0);
            if gn::validate(&net.links).is_err() {
                continue;
            }
        }
        let ntrains = if congested { rng.usize(4.min(max_trains), max_trains.max(4)) } else { rng.usize(1, max_trains) };
        let same_depart = rng.chance(0.3);
        let both_dirs = congested || rng.chance(0.8);
        // departure spread: from everything at once to three hours apart
        let spread = if congested { *rng.pick(&[120.0, 600.0, 1800.0]) } else { *rng.pick(&[600.0, 1800.0, 3.0 * 3600.0]) };
        let mut trains = vec![];
        let links = net.links.clone();
        for k in 0..ntrains {
            let spec_idx = rng.usize(0, nspecs - 1);
            let reverse = if congested && rng.chance(0.7) { k % 2 == 1 } else { both_dirs && rng.chance(0.5) };
            let depart = if same_depart { 0.0 } else { (rng.range(0.0, spread)).round() };
            let (o_id, d_id) = if reverse { ("Br", "Ar") } else { ("A", "B") };
            let init = InitTrainState::new(Some(uc::S * depart), None, None);
            let b = TrainSimBuilder::new(format!("train{k}"), specs[spec_idx].config.clone(), specs[spec_idx].consist.clone(), Some(o_id.into()), Some(d_id.into()), Some(init));
            let sim = match b.make_speed_limit_train_sim(&lm, None, None, None) {
                Ok(s) => s,
                Err(_) => continue,
            };
            let origs = lm[o_id].iter().map(|l| l.link_idx.idx() as u32).collect();
            let dests = lm[d_id].iter().map(|l| l.link_idx.idx() as u32).collect();
            trains.push(TrainCase { spec_idx, reverse, depart, sim, origs, dests });
        }
        if trains.is_empty() {
            continue;
        }
        return Some(Instance { net, links, lm, specs, trains, route_len });
    }
    None
}
