//! Seeded generators for powertrain components, locomotives and consists (DESIGN §3).
use crate::rng::Rng;
use altrios_core::consist::locomotive::PowertrainType;
use altrios_core::consist::{PowerDistributionControlType, Proportional, RESGreedy};
use altrios_core::prelude::*;
use altrios_core::uc;

/// sorted, strictly increasing fractions in [0,1] starting at 0 and ending at 1
fn frac_grid(rng: &mut Rng, n: usize) -> Vec<f64> {
    let mut v: Vec<f64> = vec![0.0, 1.0];
    while v.len() < n {
        let x = (rng.range(0.01, 0.99) * 1000.0).round() / 1000.0;
        if !v.iter().any(|y| (y - x).abs() < 1e-3) {
            v.push(x);
        }
    }
    v.sort_by(|a, b| a.partial_cmp(b).unwrap());
    v
}

pub fn fuel_converter(rng: &mut Rng) -> FuelConverter {
    let mut fc = FuelConverter::default();
    if rng.chance(0.15) {
        return fc; // shipped default
    }
    let rating = rng.lrange(0.5e6, 6e6);
    fc.pwr_out_max = uc::W * rating;
    fc.pwr_out_max_init = uc::W * rating * *rng.pick(&[0.0, 0.05, 0.1, 0.3, 0.7, 1.0]);
    fc.pwr_ramp_lag = uc::S * rng.lrange(5.0, 120.0);
    let n = rng.usize(2, 12);
    fc.pwr_out_frac_interp = frac_grid(rng, n);
    let flat = rng.chance(0.1);
    let e0 = rng.range(0.05, 0.6);
    fc.eta_interp = (0..n)
        .map(|i| {
            if flat {
                e0
            } else if i == 0 {
                rng.range(0.02, 0.3)
            } else {
                rng.range(0.2, 0.6)
            }
        })
        .collect();
    fc.pwr_idle_fuel = uc::W * *rng.pick(&[0.0, 5e3, 19.7e3, 50e3]);
    fc
}

/// η map such that the derived input-fraction grid is strictly increasing (constructor requirement)
fn eta_map_monotone(rng: &mut Rng, n: usize, lo: f64, hi: f64) -> (Vec<f64>, Vec<f64>) {
    loop {
        let frac = frac_grid(rng, n);
        let constant = rng.chance(0.3);
        let e0 = rng.range(lo, hi);
        let eta: Vec<f64> = (0..n)
            .map(|_| {
                if constant {
                    e0
                } else if rng.chance(0.1) {
                    1.0
                } else {
                    rng.range(lo, hi)
                }
            })
            .collect();
        let inp: Vec<f64> = frac.iter().zip(&eta).map(|(x, y)| x / y).collect();
        if inp.windows(2).all(|w| w[0] < w[1]) {
            return (frac, eta);
        }
    }
}

pub fn generator(rng: &mut Rng, min_rating: f64) -> Generator {
    if rng.chance(0.15) && min_rating <= 5e6 {
        return Generator::default();
    }
    let n = rng.usize(2, 8);
    let (frac, eta) = eta_map_monotone(rng, n, 0.5, 1.0);
    // the generator may be the binding component (rated below the engine) or oversized
    let rating = min_rating * if rng.chance(0.35) { rng.range(0.5, 1.0) } else { rng.range(1.0, 1.6) };
    Generator::new(frac, eta, rating, None).expect("generator map accepted")
}

pub fn edrv(rng: &mut Rng, rating: f64) -> ElectricDrivetrain {
    if rng.chance(0.15) {
        let mut e = ElectricDrivetrain::default();
        e.pwr_out_max = uc::W * rating;
        return e;
    }
    let n = rng.usize(2, 8);
    let (frac, eta) = eta_map_monotone(rng, n, 0.5, 1.0);
    ElectricDrivetrain::new(frac, eta, rating, None).expect("edrv map accepted")
}

pub fn res(rng: &mut Rng) -> ReversibleEnergyStorage {
    let mut r = ReversibleEnergyStorage::default();
    let shipped = rng.chance(0.2);
    if !shipped {
        r.energy_capacity = uc::J * rng.lrange(0.2, 15.0) * 3.6e9;
        r.pwr_out_max = uc::W * rng.lrange(0.3e6, 6e6);
        r.min_soc = uc::R * (rng.range(0.0, 0.3) * 100.0).round() / 100.0;
        r.max_soc = uc::R * (rng.range(0.7, 1.0) * 100.0).round() / 100.0;
        // 3-D grid: temperature × soc × c-rate
        let nt = rng.usize(2, 4);
        let ns = rng.usize(2, 6);
        let nc = rng.usize(2, 7);
        let mut tg: Vec<f64> = (0..nt).map(|i| 10.0 + 15.0 * i as f64).collect();
        tg[0] = rng.range(-10.0, 20.0);
        let sg: Vec<f64> = (0..ns).map(|i| i as f64 / (ns - 1) as f64).collect();
        let cmax = rng.range(0.5, 6.0);
        let cg: Vec<f64> = (0..nc)
            .map(|i| -cmax + 2.0 * cmax * i as f64 / (nc - 1) as f64)
            .collect();
        let constant = rng.chance(0.2);
        let e0 = rng.range(0.6, 1.0);
        let vals: Vec<Vec<Vec<f64>>> = (0..nt)
            .map(|_| {
                (0..ns)
                    .map(|_| {
                        (0..nc)
                            .map(|_| {
                                if constant {
                                    e0
                                } else if rng.chance(0.05) {
                                    1.0
                                } else {
                                    rng.range(0.55, 1.0)
                                }
                            })
                            .collect()
                    })
                    .collect()
            })
            .collect();
        r.eta_interp_grid = [tg, sg, cg];
        r.eta_interp_values = vals;
        if rng.chance(0.5) {
            let w = rng.range(0.02, 0.15);
            r.soc_lo_ramp_start = Some(r.min_soc + uc::R * w);
            let w = rng.range(0.02, 0.15);
            r.soc_hi_ramp_start = Some(r.max_soc - uc::R * w);
        } else {
            r.soc_lo_ramp_start = None;
            r.soc_hi_ramp_start = None;
        }
        r.state.temperature_celsius = *rng.pick(&[-20.0, 5.0, 23.0, 30.0, 45.0, 70.0]);
    }
    r.save_interval = None;
    // initial SOC anywhere in the window, including on / next to both ramp regions and hard limits
    let lo = r.min_soc.value;
    let hi = r.max_soc.value;
    let wlo = r.soc_lo_ramp_start.map(|x| x.value - lo).unwrap_or(0.05);
    let whi = r.soc_hi_ramp_start.map(|x| hi - x.value).unwrap_or(0.05);
    let soc = match rng.usize(0, 9) {
        0 => lo,
        1 => hi,
        2 => lo + 5e-5,
        3 => hi - 5e-5,
        4 => lo + wlo * rng.f(),
        5 => hi - whi * rng.f(),
        6 => lo + wlo,
        7 => hi - whi,
        _ => rng.range(lo, hi),
    };
    r.state.soc = uc::R * soc;
    r
}

#[derive(Clone, Copy, Debug, PartialEq)]
pub enum Kind {
    Conv,
    Bel,
}

pub fn locomotive(rng: &mut Rng, kind: Kind) -> Locomotive {
    let mut loco = Locomotive::default();
    match kind {
        Kind::Conv => {
            let fc = fuel_converter(rng);
            let gen = generator(rng, fc.pwr_out_max.value);
            let k = rng.range(0.8, 1.2);
            let drv = edrv(rng, gen.pwr_out_max.value * k);
            loco.loco_type = PowertrainType::ConventionalLoco(ConventionalLoco::new(fc, gen, drv));
        }
        Kind::Bel => {
            let r = res(rng);
            let k = rng.range(0.8, 1.3);
            let drv = edrv(rng, r.pwr_out_max.value * k);
            loco.loco_type = PowertrainType::BatteryElectricLoco(BatteryElectricLoco::new(r, drv));
        }
    }
    loco.pwr_aux_offset = uc::W * *rng.pick(&[0.0, 8554.15, 20e3, 60e3]);
    loco.pwr_aux_traction_coeff = uc::R * *rng.pick(&[0.0, 0.000539638, 0.005, 0.02]);
    loco.set_save_interval(None);
    loco
}

pub fn consist(rng: &mut Rng, n: usize) -> (Consist, Vec<Kind>) {
    let mut kinds = vec![];
    let mut locos = vec![];
    let mode = rng.usize(0, 3);
    for i in 0..n {
        let k = match mode {
            0 => Kind::Conv,
            1 => Kind::Bel,
            _ => {
                if rng.chance(0.5) {
                    Kind::Conv
                } else {
                    Kind::Bel
                }
            }
        };
        let _ = i;
        kinds.push(k);
        locos.push(locomotive(rng, k));
    }
    let pdct = if rng.chance(0.5) {
        PowerDistributionControlType::Proportional(Proportional)
    } else {
        PowerDistributionControlType::RESGreedy(RESGreedy)
    };
    (Consist::new(locos, None, pdct), kinds)
}

/// time-step domain bound for a battery (DESIGN §3): one step at the published limit cannot
/// jump over a hard SOC limit
pub fn res_dt_max(r: &ReversibleEnergyStorage) -> f64 {
    let lo = r.min_soc.value;
    let hi = r.max_soc.value;
    let wlo = r.soc_lo_ramp_start.map(|x| x.value - lo).unwrap_or(0.05);
    let whi = r.soc_hi_ramp_start.map(|x| hi - x.value).unwrap_or(0.05);
    let w = wlo.min(whi).max(1e-6);
    let eta_min = r
        .eta_interp_values
        .iter()
        .flatten()
        .flatten()
        .cloned()
        .fold(f64::INFINITY, f64::min)
        .min(1.0);
    (0.9 * w * eta_min * r.energy_capacity.value / r.pwr_out_max.value).min(10.0)
}
