//! Seeded generators of train makeups, consists sized for the train, builders and speed traces.
use crate::gen::network::GenNet;
use crate::gen::powertrain as gp;
use crate::rng::Rng;
use altrios_core::consist::{PowerDistributionControlType, Proportional, RESGreedy};
use altrios_core::prelude::*;
use altrios_core::track::{Location, TrainType};
use altrios_core::traits::SerdeAPI;
use altrios_core::uc;
use std::collections::HashMap;

const RV_DIR: &str = "/repo/python/altrios/resources/rolling_stock";
const RV_FILES: [&str; 6] = [
    "Manifest_Loaded.yaml",
    "Manifest_Empty.yaml",
    "Unit_Loaded.yaml",
    "Unit_Empty.yaml",
    "Intermodal_Loaded.yaml",
    "Intermodal_Empty.yaml",
];

fn synthetic_rv(name: &str) -> RailVehicle {
    RailVehicle {
        car_type: name.to_string(),
        length: uc::M * 18.0,
        axle_count: 4,
        brake_count: 1,
        mass_static_base: uc::KG * 28500.0,
        mass_freight: uc::KG * 101500.0,
        speed_max: uc::MPS * 20.0,
        braking_ratio: uc::R * 0.11,
        mass_rot_per_axle: uc::KG * 750.0,
        bearing_res_per_axle: uc::N * 40.26,
        rolling_ratio: uc::R * 0.001546,
        davis_b: uc::SPM * 0.0,
        cd_area: uc::M2 * 4.087,
        curve_coeff_0: uc::R * 0.056,
        curve_coeff_1: uc::R * 0.4387579,
        curve_coeff_2: uc::R * 0.01025485,
    }
}

pub fn rail_vehicle(rng: &mut Rng) -> RailVehicle {
    let f = *rng.pick(&RV_FILES);
    let mut rv = RailVehicle::from_file(format!("{RV_DIR}/{f}")).unwrap_or_else(|_| synthetic_rv(f));
    if rng.chance(0.5) {
        // perturbed copy
        rv.car_type = format!("{}_p{}", rv.car_type, rng.usize(0, 99));
        rv.length = uc::M * (rv.length.value * rng.range(0.7, 1.4) * 2.0).round() / 2.0;
        rv.mass_freight = uc::KG * (rv.mass_freight.value * rng.range(0.0, 1.2));
        rv.speed_max = uc::MPS * *rng.pick(&[13.4, 17.9, 20.0, 22.35, 26.8, 31.3]);
        rv.davis_b = uc::SPM * *rng.pick(&[0.0, 0.0, 2.0e-5, 6.7e-5]);
        rv.cd_area = uc::M2 * rng.range(1.0, 8.0);
        rv.rolling_ratio = uc::R * rng.range(0.0008, 0.003);
        rv.braking_ratio = uc::R * rng.range(0.06, 0.2);
        rv.axle_count = *rng.pick(&[4u8, 4, 6, 8]);
        rv.brake_count = *rng.pick(&[1u8, 1, 2]);
    }
    rv
}

#[derive(Clone, Debug)]
pub struct TrainSpec {
    pub config: TrainConfig,
    pub consist: Consist,
    pub n_cars: u32,
    pub length: f64,
    pub towed_mass: f64,
    pub kinds: Vec<gp::Kind>,
}

/// shipped-default or generated locomotive that is strong enough to be useful in a train
fn train_loco(rng: &mut Rng, kind: gp::Kind, generated: bool) -> Locomotive {
    let mut l = if generated {
        let mut l = gp::locomotive(rng, kind);
        // trains need a workable aux load / engine floor combination
        l.pwr_aux_offset = uc::W * *rng.pick(&[0.0, 8554.15, 20e3]);
        l
    } else {
        match kind {
            gp::Kind::Conv => Locomotive::default(),
            gp::Kind::Bel => {
                let mut b = Locomotive::default_battery_electric_loco();
                if let Some(r) = b.reversible_energy_storage_mut() {
                    r.state.soc = uc::R * rng.range(0.3, 0.9);
                }
                b
            }
        }
    };
    l.set_save_interval(None);
    l
}

/// `max_len`: longest admissible train [m]; `grade`: steepest grade on the network
pub fn train(rng: &mut Rng, types: &[TrainType], max_len: f64, grade: f64) -> TrainSpec {
    let ntypes = rng.usize(1, 3);
    let mut rvs: Vec<RailVehicle> = vec![];
    while rvs.len() < ntypes {
        let rv = rail_vehicle(rng);
        if !rvs.iter().any(|r| r.car_type == rv.car_type) {
            rvs.push(rv);
        }
    }
    let mut n_by: HashMap<String, u32> = HashMap::new();
    let max_cars = ((max_len / 20.0) as u32).clamp(3, 150);
    let mut total = 0u32;
    for rv in &rvs {
        let n = rng.usize(1, (max_cars as usize / ntypes).max(1)) as u32;
        n_by.insert(rv.car_type.clone(), n);
        total += n;
    }
    let length: f64 = rvs.iter().map(|r| r.length.value * n_by[&r.car_type] as f64).sum();
    let towed: f64 = rvs.iter().map(|r| (r.mass_static_base.value + r.mass_freight.value) * n_by[&r.car_type] as f64).sum();
    // overrides (train_length / train_mass) in a minority of cases
    let train_length = if rng.chance(0.15) { Some(uc::M * (length * rng.range(0.9, 1.1) * 2.0).round() / 2.0) } else { None };
    let train_mass = if rng.chance(0.15) { Some(uc::KG * towed * rng.range(0.8, 1.2)) } else { None };
    let eff_len = train_length.map(|x| x.value).unwrap_or(length);
    let eff_mass = train_mass.map(|x| x.value).unwrap_or(towed);
    let cd_area_vec = if rng.chance(0.1) { Some((0..total).map(|_| uc::M2 * rng.range(1.0, 6.0)).collect()) } else { None };
    let config = TrainConfig::new(rvs, n_by, *rng.pick(types), train_length, train_mass, cd_area_vec).expect("train config");
    // consist sized for weight and grade
    let need = eff_mass * 9.80155 * (grade + 0.006) / (0.75 * 667.2e3);
    let n_loco = (need.ceil() as usize).clamp(1, 10).max(if rng.chance(0.3) { 2 } else { 1 });
    let mode = rng.usize(0, 3);
    let generated = rng.chance(0.2);
    let mut kinds = vec![];
    let mut locos = vec![];
    for i in 0..n_loco {
        let k = match mode {
            0 => gp::Kind::Conv,
            1 if i > 0 => gp::Kind::Bel,
            1 => gp::Kind::Conv,
            _ => {
                if rng.chance(0.6) {
                    gp::Kind::Conv
                } else {
                    gp::Kind::Bel
                }
            }
        };
        kinds.push(k);
        let g = generated && rng.chance(0.5);
        locos.push(train_loco(rng, k, g));
    }
    let pdct = if rng.chance(0.5) {
        PowerDistributionControlType::Proportional(Proportional)
    } else {
        PowerDistributionControlType::RESGreedy(RESGreedy)
    };
    let consist = Consist::new(locos, None, pdct);
    TrainSpec { config, consist, n_cars: total, length: eff_len, towed_mass: eff_mass, kinds }
}

pub fn location(id: &str, link: u32) -> Location {
    Location {
        location_id: id.to_string(),
        offset: uc::M * 0.0,
        link_idx: altrios_core::track::LinkIdx::new(link),
        is_front_end: false,
        grid_emissions_region: "R".into(),
        electricity_price_region: "R".into(),
        liquid_fuel_price_region: "R".into(),
    }
}

/// location map with "A" = first-gap links, "B" = last-gap links (forward) and the flipped pair "Br"/"Ar"
pub fn location_map(net: &GenNet) -> HashMap<String, Vec<Location>> {
    let mut m = HashMap::new();
    let first = &net.gaps[0];
    let last = &net.gaps[net.gaps.len() - 1];
    m.insert("A".to_string(), first.iter().map(|l| location("A", *l)).collect());
    m.insert("B".to_string(), last.iter().map(|l| location("B", *l)).collect());
    if net.has_flips {
        m.insert("Br".to_string(), last.iter().map(|l| location("Br", net.links[*l as usize].idx_flip.idx() as u32)).collect());
        m.insert("Ar".to_string(), first.iter().map(|l| location("Ar", net.links[*l as usize].idx_flip.idx() as u32)).collect());
    }
    m
}

/// a speed trace covering at most `dist` metres, irregular stamps, bounded acceleration
pub fn speed_trace(rng: &mut Rng, dist: f64, vmax: f64, steps: usize) -> (Vec<f64>, Vec<f64>) {
    let irregular = rng.chance(0.6);
    let hard = rng.chance(0.3); // accelerations that saturate the consist
    let amax = if hard { rng.range(0.3, 1.2) } else { rng.range(0.02, 0.15) };
    let (mut t, mut v, mut x) = (0.0f64, if rng.chance(0.7) { 0.0 } else { rng.range(0.0, vmax) }, 0.0f64);
    let (mut time, mut speed) = (vec![t], vec![v]);
    let mut target = rng.range(0.0, vmax);
    for k in 0..steps {
        let dt = if irregular { rng.lrange(0.05, 10.0) } else { 1.0 };
        if k % 40 == 0 || rng.chance(0.03) {
            target = if rng.chance(0.2) { 0.0 } else { rng.range(0.0, vmax) };
        }
        let dv = (target - v).clamp(-amax * dt, amax * dt);
        let vn = (v + dv).max(0.0);
        let dx = 0.5 * (v + vn) * dt;
        if x + dx > dist {
            break;
        }
        x += dx;
        t += dt;
        v = vn;
        time.push(t);
        speed.push(v);
    }
    (time, speed)
}
