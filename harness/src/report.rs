//! Worker-side report: what was observed, what was violated. Serialised to JSON for the driver.
use serde::Serialize;
use serde_json::{json, Value};
use std::collections::{BTreeMap, BTreeSet};

#[derive(Serialize, Clone, Debug)]
pub struct Violation {
    pub property: String,
    /// which clause of the property's oracle failed
    pub clause: String,
    /// exact signature used for known-finding matching (finite vocabulary, built by the monitor)
    pub signature: String,
    pub message: String,
    /// global case index (replayable with --only-case)
    pub case: u64,
    /// concrete description of the failing case
    pub detail: Value,
}

#[derive(Serialize, Clone, Debug, Default)]
pub struct Report {
    pub property: String,
    pub tier: String,
    pub seed: u64,
    pub shard: u64,
    pub nshards: u64,
    /// cases generated / executed
    pub evaluations: u64,
    /// signatures (hashes) of cases that were non-trivial by the property's rule
    pub nontrivial_sigs: BTreeSet<String>,
    /// per-clause / per-event observation counters
    pub counters: BTreeMap<String, u64>,
    /// max-type statistics
    pub maxima: BTreeMap<String, f64>,
    pub samples: Vec<Value>,
    pub violations: Vec<Violation>,
    /// things that made a case inconclusive (harness-side panic, watchdog, developer debug_assert)
    pub diagnostics: Vec<Value>,
    pub inconclusive_cases: u64,
    /// output digests per (case, pipeline): compared across fresh processes by the driver (C18)
    pub digests: BTreeMap<String, String>,
    pub rule: String,
    pub assumptions: Vec<String>,
    pub wall_s: f64,
}

pub const MAX_VIOLATIONS_PER_WORKER: usize = 40;
pub const MAX_SAMPLES_PER_WORKER: usize = 3;

impl Report {
    pub fn count(&mut self, key: &str) {
        *self.counters.entry(key.to_string()).or_insert(0) += 1;
    }
    pub fn add(&mut self, key: &str, n: u64) {
        *self.counters.entry(key.to_string()).or_insert(0) += n;
    }
    pub fn max(&mut self, key: &str, v: f64) {
        let e = self.maxima.entry(key.to_string()).or_insert(f64::NEG_INFINITY);
        if v > *e {
            *e = v;
        }
    }
    pub fn nontrivial(&mut self, sig: u64) {
        self.nontrivial_sigs.insert(format!("{sig:016x}"));
    }
    pub fn sample(&mut self, v: Value) {
        if self.samples.len() < MAX_SAMPLES_PER_WORKER {
            self.samples.push(v);
        }
    }
    pub fn diag(&mut self, v: Value) {
        if self.diagnostics.len() < 50 {
            self.diagnostics.push(v);
        }
    }
}

/// Per-case context handed to monitors.
pub struct Ctx<'a> {
    pub rep: &'a mut Report,
    pub case: u64,
    pub prop: &'static str,
    /// violations recorded for this case (to cap per-case noise)
    pub case_violations: usize,
}

impl<'a> Ctx<'a> {
    pub fn violate(&mut self, clause: &str, signature: &str, message: String, detail: Value) {
        self.rep.count(&format!("violations.{clause}"));
        self.case_violations += 1;
        // keep at most a few per case and a bounded number per worker; counters keep the totals
        let same_sig = self
            .rep
            .violations
            .iter()
            .filter(|v| v.signature == signature)
            .count();
        if same_sig >= 3 || self.rep.violations.len() >= MAX_VIOLATIONS_PER_WORKER {
            return;
        }
        self.rep.violations.push(Violation {
            property: self.prop.to_string(),
            clause: clause.to_string(),
            signature: signature.to_string(),
            message,
            case: self.case,
            detail,
        });
    }
    pub fn count(&mut self, key: &str) {
        self.rep.count(key)
    }
    pub fn add(&mut self, key: &str, n: u64) {
        self.rep.add(key, n)
    }
}

/// relative/absolute closeness used by all numeric oracles (DESIGN §1.3)
pub fn close(a: f64, b: f64, rel: f64, scale: f64) -> bool {
    if a == b {
        return true;
    }
    if !a.is_finite() || !b.is_finite() {
        return false;
    }
    let m = a.abs().max(b.abs()).max(scale.abs());
    (a - b).abs() <= rel * m + 1e-12
}

pub fn jf(x: f64) -> Value {
    if x.is_finite() {
        json!(x)
    } else {
        json!(format!("{x}"))
    }
}
